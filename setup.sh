#!/bin/sh
# Build the framework offline (hooked kanal + shim + harness).
set -e
cd "$(dirname "$0")"
export CARGO_NET_OFFLINE=true
CARGO_TARGET_DIR=/verif/target/default cargo build --release --offline -p kmc
