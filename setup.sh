#!/bin/sh
# Build the framework offline (both builds of the hooked crate + harness).
set -e
cd "$(dirname "$0")"
export CARGO_NET_OFFLINE=true
CARGO_TARGET_DIR=/verif/target/default cargo build --release --offline -p kmc
CARGO_TARGET_DIR=/verif/target/seam cargo build --release --offline -p kmc --features seam
