//! Happens-before and lifetime tracking for memory kanal reaches through raw
//! pointers (a blocked operation's `Signal`, its payload slot, its waker).
//!
//! * `rd(addr)` / `wr(addr)`: a side table maps the address to a
//!   `loom::cell::UnsafeCell<()>`; a tracked read performs `with`, a tracked
//!   write `with_mut`, so loom's vector clocks decide whether two accesses are
//!   ordered by the release/acquire/fence edges the code actually has.
//! * `publish(sig)`: the waiter's pointer enters the wait list: the region
//!   `[sig, sig+size)` is live.  `retire(sig)` (from the guarded `Drop for
//!   Signal`): the owner is about to return / the future is going away: a
//!   tracked *write* is performed on every address associated with the region
//!   (so every peer access must happen-before it), then the region is dead.
//! * `peer_enter(this)`: a thread starts working on somebody else's waiter
//!   through a raw pointer (`Signal::send/recv/wake/terminate`).  Until the
//!   guard drops, every shim-visible access it makes to that region (tracked
//!   reads/writes, the region's atomics, its cells) requires the region to be
//!   live: anything else is an access after the owner has gone.
//! * `forget_range` (called by the harness's global allocator on `dealloc`):
//!   freed heap memory loses its tracking state, so reuse of an address by an
//!   unrelated object is never mistaken for a conflict.

use crate::ctl::{violation, with, with_thread, Region};
use std::cell::Cell;
use std::panic::{catch_unwind, AssertUnwindSafe};
use std::rc::Rc;

thread_local! {
    static BUSY: Cell<bool> = const { Cell::new(false) };
}

struct Busy;
impl Busy {
    fn enter() -> Busy {
        BUSY.with(|b| b.set(true));
        Busy
    }
}
impl Drop for Busy {
    fn drop(&mut self) {
        BUSY.with(|b| b.set(false));
    }
}

/// Scheduling point of a plain-memory access: a relaxed read-modify-write of
/// a loom atomic that belongs to the address.  Two threads' accesses to the
/// same address become dependent operations, so the exploration tries both
/// orders of them wherever no happens-before edge fixes the order (on code
/// whose accesses are all ordered it adds no execution); being relaxed it
/// creates no happens-before edge itself.
fn touch(addr: usize) {
    if addr == 0 || BUSY.with(|b| b.get()) {
        return;
    }
    let t = {
        let _b = Busy::enter();
        with(|e| {
            if !e.active {
                return None;
            }
            Some(
                e.touches
                    .entry(addr)
                    .or_insert_with(|| Rc::new(loom::sync::atomic::AtomicUsize::new(0)))
                    .clone(),
            )
        })
    };
    if let Some(t) = t {
        t.fetch_add(1, std::sync::atomic::Ordering::Relaxed);
    }
}

/// Scheduling point of `park` / `unpark`: a relaxed RMW of a loom atomic that
/// belongs to the parked / unparked thread (see `thread::Thread`).
pub(crate) fn park_token(id: loom::thread::ThreadId) {
    let key = crate::ctl::with_thread_of(id, |_, i| 16 + 8 * i);
    touch(key);
}

fn access(addr: usize, write: bool, what: &str) {
    touch(addr);
    if addr == 0 || !crate::ctl::tracking() {
        return;
    }
    let _b = Busy::enter();
    // 1. lifetime: a peer may only touch a live waiter
    let dead: Option<String> = with_thread(|e, i| {
        if write {
            e.counters.tracked_writes += 1
        } else {
            e.counters.tracked_reads += 1
        }
        if let Some(&target) = e.threads[i].1.peer.last() {
            match e.regions.get_mut(&target) {
                Some(r) if r.live => {
                    if !r.addrs.contains(&addr) {
                        r.addrs.push(addr);
                    }
                    None
                }
                _ => Some(format!(
                    "thread {} {} {:#x} of waiter {:#x} after its owner returned / was dropped",
                    e.threads[i].1.name,
                    if write { "writes" } else { "reads" },
                    addr,
                    target
                )),
            }
        } else {
            // owner-side access: remember addresses lying inside a live region
            for (start, r) in e.regions.iter_mut() {
                if r.live && addr >= *start && addr < *start + r.size {
                    if !r.addrs.contains(&addr) {
                        r.addrs.push(addr);
                    }
                }
            }
            None
        }
    });
    if let Some(m) = dead {
        violation("use-after-return", &m);
    }
    // 2. ordering
    let cell = with(|e| {
        e.cells
            .entry(addr)
            .or_insert_with(|| Rc::new(loom::cell::UnsafeCell::new(())))
            .clone()
    });
    let r = catch_unwind(AssertUnwindSafe(|| {
        if write {
            cell.with_mut(|_| ())
        } else {
            cell.with(|_| ())
        }
    }));
    if let Err(p) = r {
        let m = p
            .downcast_ref::<String>()
            .cloned()
            .or_else(|| p.downcast_ref::<&str>().map(|s| s.to_string()))
            .unwrap_or_default();
        let name = with_thread(|e, i| e.threads[i].1.name);
        violation(
            "data-race",
            &format!(
                "thread {name}: {what} of {addr:#x} is not ordered (happens-before) with an earlier conflicting access: {}",
                m.lines().next().unwrap_or("")
            ),
        );
    }
}

/// Tracked read of the memory at `p`.
#[inline(never)]
pub fn rd<T: ?Sized>(p: *const T) {
    access(p as *const u8 as usize, false, "read");
}

/// Tracked write of the memory at `p`.
#[inline(never)]
pub fn wr<T: ?Sized>(p: *const T) {
    access(p as *const u8 as usize, true, "write");
}

/// The waiter at `sig` becomes reachable by other threads.
#[inline(never)]
pub fn publish<T>(sig: *const T) {
    let _b = Busy::enter();
    let start = sig as usize;
    with_thread(|e, i| {
        e.stamp += 1;
        let s = e.stamp;
        let name = e.threads[i].1.name;
        e.publish_log.push((name, s));
    });
    if !crate::ctl::tracking() {
        return;
    }
    with(|e| {
        e.counters.publishes += 1;
        // a new life at this address
        if let Some(old) = e.regions.remove(&start) {
            for a in old.addrs {
                e.cells.remove(&a);
            }
        }
        e.regions.insert(
            start,
            Region {
                size: std::mem::size_of::<T>().max(1),
                live: true,
                addrs: Vec::new(),
            },
        );
    });
}

/// The owner of the waiter at `sig` is about to give its memory up.
#[inline(never)]
pub fn retire<T>(sig: *const T) {
    if !crate::ctl::tracking() {
        return;
    }
    let start = sig as usize;
    let addrs = {
        let _b = Busy::enter();
        with(|e| match e.regions.get_mut(&start) {
            Some(r) if r.live => {
                e.counters.retires += 1;
                r.live = false;
                Some(std::mem::take(&mut r.addrs))
            }
            _ => None,
        })
    };
    let Some(addrs) = addrs else { return };
    if std::thread::panicking() {
        return;
    }
    for a in &addrs {
        // every access any peer made must happen-before the owner letting go
        access(*a, true, "end-of-life write");
    }
    let _b = Busy::enter();
    with(|e| {
        for a in &addrs {
            e.cells.remove(a);
        }
    });
}

/// Guard of a peer's work on the waiter at `this`.
pub struct PeerGuard(bool);

#[inline(never)]
pub fn peer_enter<T>(this: *const T) -> PeerGuard {
    if !crate::ctl::tracking() {
        return PeerGuard(false);
    }
    let start = this as usize;
    let dead: Option<String> = {
        let _b = Busy::enter();
        with_thread(|e, i| {
            e.counters.peer_entries += 1;
            e.threads[i].1.peer.push(start);
            match e.regions.get(&start) {
                Some(r) if r.live => None,
                Some(_) => Some(format!(
                    "thread {} starts working on waiter {:#x} after its owner returned / was dropped",
                    e.threads[i].1.name, start
                )),
                None => Some(format!(
                    "thread {} starts working on waiter {:#x} which was never published or whose memory was freed",
                    e.threads[i].1.name, start
                )),
            }
        })
    };
    if let Some(m) = dead {
        violation("use-after-return", &m);
    }
    PeerGuard(true)
}

impl Drop for PeerGuard {
    fn drop(&mut self) {
        if !self.0 {
            return;
        }
        if std::thread::panicking() {
            // Either a violation is being reported (the state is no longer
            // needed) or kanal code runs while its thread unwinds for a reason
            // of the harness's own (a handle dropped during a panic): then the
            // peer stack has to stay balanced, or every later access of this
            // thread would be judged as a peer's.
            let _b = Busy::enter();
            crate::ctl::try_with(|e| {
                if e.violation.is_some() || !e.active {
                    return;
                }
                let id = loom::thread::current().id();
                if let Some((_, t)) = e.threads.iter_mut().find(|(t, _)| *t == id) {
                    t.peer.pop();
                }
            });
            return;
        }
        let _b = Busy::enter();
        with_thread(|e, i| {
            e.threads[i].1.peer.pop();
        });
    }
}

/// An atomic or a cell at `addr` is about to be accessed by the calling thread.
pub(crate) fn shim_access(addr: usize) {
    if !crate::ctl::tracking() {
        return;
    }
    let dead: Option<String> = {
        let _b = Busy::enter();
        with_thread(|e, i| {
            let &target = e.threads[i].1.peer.last()?;
            match e.regions.get(&target) {
                Some(r) if addr >= target && addr < target + r.size && !r.live => Some(format!(
                    "thread {} touches {:#x} inside waiter {:#x} after its owner returned / was dropped",
                    e.threads[i].1.name, addr, target
                )),
                None if addr == target => Some(format!(
                    "thread {} touches waiter {:#x} whose memory was freed",
                    e.threads[i].1.name, target
                )),
                _ => None,
            }
        })
    };
    if let Some(m) = dead {
        if !std::thread::panicking() {
            violation("use-after-return", &m);
        }
    }
}

/// The calling thread obtains the raw pointer of the plain cell at `addr`
/// (`UnsafeCell::get()`), which in kanal happens exactly where the cell is
/// read or written.  Besides the liveness test this is (a) a scheduling point
/// at which the exploration orders this access both ways with every other
/// thread's access to the same cell (`touch`) and (b) a tracked *read* of the
/// cell: whatever the access really is, it
/// conflicts with every write, so an unordered write elsewhere is a race even
/// when the `rd`/`wr` hook that tells the kind is missing or has been left
/// behind at another place.
pub(crate) fn cell_access(addr: usize) {
    shim_access(addr);
    if BUSY.with(|b| b.get()) {
        return;
    }
    // (scheduling point inside; the tracked read is a no-op without tracking)
    access(addr, false, "access");
}

/// Heap memory `[ptr, ptr+size)` is being freed (harness allocator hook).
pub fn forget_range(ptr: usize, size: usize) {
    if BUSY.with(|b| b.get()) {
        return;
    }
    crate::ctl::try_with(|e| {
        if !e.active || (e.cells.is_empty() && e.regions.is_empty() && e.touches.is_empty()) {
            return;
        }
        let _b = Busy::enter();
        let end = ptr + size;
        let keys: Vec<usize> = e.cells.range(ptr..end).map(|(k, _)| *k).collect();
        for k in keys {
            e.cells.remove(&k);
        }
        let keys: Vec<usize> = e.touches.range(ptr..end).map(|(k, _)| *k).collect();
        for k in keys {
            e.touches.remove(&k);
        }
        let keys: Vec<usize> = e.regions.range(ptr..end).map(|(k, _)| *k).collect();
        for k in keys {
            e.regions.remove(&k);
        }
    });
}
