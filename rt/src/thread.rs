//! `std::thread` of the hooked build.

use crate::ctl::{event, with, Ev};
use std::num::NonZeroUsize;
use std::time::Duration;

/// `std::thread::Thread` of the hooked build: loom's handle, with `unpark` made
/// a scheduling point.  loom's own `unpark` is not one (and it joins the
/// caller's clock into the target at once), so the window between a waker's
/// final state store and its `unpark()` would never be explored: a waiter that
/// returns from `park()` spuriously inside that window has only the state
/// word to synchronise through.  `unpark` and `park` both bump a loom atomic
/// that belongs to the target thread (relaxed: no happens-before edge), which
/// makes them dependent operations: the exploration tries both orders.
#[derive(Clone, Debug)]
pub struct Thread(loom::thread::Thread);

impl Thread {
    pub fn unpark(&self) {
        crate::track::park_token(self.0.id());
        self.0.unpark()
    }
    pub fn id(&self) -> loom::thread::ThreadId {
        self.0.id()
    }
}

pub fn current() -> Thread {
    Thread(loom::thread::current())
}

/// loom's token-based park; the `spurious_park` knob makes the n-th park call
/// of the execution return at once (a spurious wake-up).  Stale tokens (an
/// unpark that lands after the waiter has already gone on) arise by themselves
/// from loom's token semantics.
pub fn park() {
    event(Ev::Park);
    crate::ctl::check_not_holding("park()");
    let spurious = with(|e| {
        let n = e.parks;
        e.parks += 1;
        if e.knobs.spurious_park == Some(n) {
            e.counters.spurious_parks += 1;
            true
        } else {
            false
        }
    });
    crate::track::park_token(loom::thread::current().id());
    if spurious {
        // the token bump above is the scheduling point; no yield: a loom yield
        // lets the peer run past its next scheduling point first, which is
        // exactly the window (final state store .. unpark) to be explored
        return;
    }
    loom::thread::park()
}

pub fn yield_now() {
    event(Ev::Yield);
    if crate::ctl::should_yield() {
        loom::thread::yield_now()
    }
}

/// Sleeping is yielding: loom has no time; the virtual clock is advanced only
/// by `Instant::now()`.
pub fn sleep(_d: Duration) {
    event(Ev::Yield);
    if crate::ctl::should_yield() {
        loom::thread::yield_now()
    }
}

pub fn available_parallelism() -> std::io::Result<NonZeroUsize> {
    Ok(NonZeroUsize::new(with(|e| e.knobs.parallelism).max(1)).unwrap())
}

/// A timed park may always return because of its timeout.
pub fn park_timeout(_d: Duration) {
    event(Ev::Park);
    loom::thread::yield_now()
}
