//! `std::thread` of the hooked build.

use crate::ctl::{event, with, Ev};
use std::num::NonZeroUsize;
use std::time::Duration;

pub use loom::thread::Thread;

pub fn current() -> Thread {
    loom::thread::current()
}

/// loom's token-based park; the `spurious_park` knob makes the n-th park call
/// of the execution return at once (a spurious wake-up).  Stale tokens (an
/// unpark that lands after the waiter has already gone on) arise by themselves
/// from loom's token semantics.
pub fn park() {
    event(Ev::Park);
    crate::ctl::check_not_holding("park()");
    let spurious = with(|e| {
        let n = e.parks;
        e.parks += 1;
        if e.knobs.spurious_park == Some(n) {
            e.counters.spurious_parks += 1;
            true
        } else {
            false
        }
    });
    if spurious {
        // still a scheduling point
        loom::thread::yield_now();
        return;
    }
    loom::thread::park()
}

pub fn yield_now() {
    event(Ev::Yield);
    if crate::ctl::should_yield() {
        loom::thread::yield_now()
    }
}

/// Sleeping is yielding: loom has no time; the virtual clock is advanced only
/// by `Instant::now()`.
pub fn sleep(_d: Duration) {
    event(Ev::Yield);
    if crate::ctl::should_yield() {
        loom::thread::yield_now()
    }
}

pub fn available_parallelism() -> std::io::Result<NonZeroUsize> {
    Ok(NonZeroUsize::new(with(|e| e.knobs.parallelism).max(1)).unwrap())
}

/// A timed park may always return because of its timeout.
pub fn park_timeout(_d: Duration) {
    event(Ev::Park);
    loom::thread::yield_now()
}
