//! Per-process knobs, per-execution state, per-loom-thread state, monitors.
//!
//! loom runs every thread of an execution as a coroutine on the OS thread that
//! called `loom::model`, so one OS thread-local holds the state of the
//! execution in progress.  The harness calls `begin_execution()` first thing in
//! every execution.

use std::cell::RefCell;
use std::collections::BTreeMap;
use std::rc::Rc;

use loom::thread::ThreadId;

/// Environment choices loom cannot make; enumerated outside the model.
#[derive(Clone, Debug)]
pub struct Knobs {
    /// iterations a counted spin loop (`Signal::wait` 256, `wait_timeout` 32,
    /// `async_blocking_wait` 32) runs before `spin_cut` breaks it
    pub spin_budget: u32,
    /// what `available_parallelism()` reports (cached process-wide by kanal)
    pub parallelism: usize,
    /// index (0-based, per execution) of the `park()` call that returns
    /// spuriously
    pub spurious_park: Option<u32>,
    /// ticks the virtual clock advances per `Instant::now()`
    pub tick: u64,
    /// happens-before / lifetime tracking on (C04, C07, C13, C15 runs)
    pub track: bool,
    /// nowait monitors on (C14, C19 runs)
    pub nowait: bool,
    /// the first `stall` sleep()/yield_now() calls of every thread in an
    /// execution return without yielding to loom: the thread may run on while
    /// its peer stays frozen (a peer descheduled for a long time), which
    /// loom's yield (always lets the others run) cannot produce
    pub stall: u32,
    /// the first `lock_spin` failed lock acquisitions of every thread in an
    /// execution return their failure at once instead of blocking until the
    /// lock word is written: the retry loop of the lock (`spin_cond`) is then
    /// really executed, phase after phase, against a holder that stays in its
    /// critical section
    pub lock_spin: u32,
}

impl Default for Knobs {
    fn default() -> Self {
        Knobs {
            spin_budget: 1,
            parallelism: 2,
            spurious_park: None,
            tick: 1,
            track: true,
            nowait: true,
            stall: 0,
            lock_spin: 0,
        }
    }
}

/// What a `nowait` region forbids.
#[derive(Clone, Copy, Debug, PartialEq, Eq)]
pub enum NoWait {
    /// must not wait for a peer: no park, no counted signal-wait loop, no pure
    /// load of a signal state word; may wait for the channel lock
    Peer,
    /// additionally must not wait for the lock: no yield/sleep at all and a
    /// bounded number of shim-visible operations
    Lock,
}

#[derive(Default, Clone, Debug)]
pub struct Counters {
    pub parks: u64,
    pub spurious_parks: u64,
    pub unparks_seen: u64,
    pub yields: u64,
    pub atomic_ops: u64,
    pub clock_reads: u64,
    pub spin_cuts: u64,
    pub publishes: u64,
    pub retires: u64,
    pub peer_entries: u64,
    pub tracked_reads: u64,
    pub tracked_writes: u64,
    pub nowait_regions: u64,
    pub nowait_max_ops: u64,
}

pub(crate) struct PerThread {
    pub name: usize,
    pub spin: [u32; 4],
    pub peer: Vec<usize>,
    pub nowait: Option<(NoWait, u64, Vec<usize>)>,
    pub unyielded: u32,
    pub lockspun: u32,
    /// lock words (addresses) this thread currently holds
    pub holds: Vec<usize>,
}

pub(crate) struct Region {
    pub size: usize,
    pub live: bool,
    pub addrs: Vec<usize>,
}

pub(crate) struct Exec {
    pub knobs: Knobs,
    pub clock: u64,
    pub parks: u32,
    /// weak compare-exchanges performed so far in this execution
    pub weak_cas: u32,
    pub threads: Vec<(ThreadId, PerThread)>,
    pub regions: BTreeMap<usize, Region>,
    pub cells: BTreeMap<usize, Rc<loom::cell::UnsafeCell<()>>>,
    /// one loom atomic per plain cell, bumped at every `UnsafeCell::get()`:
    /// makes two threads' accesses to the same cell dependent operations, so
    /// that the exploration tries both orders of them
    pub touches: BTreeMap<usize, Rc<loom::sync::atomic::AtomicUsize>>,
    pub counters: Counters,
    pub violation: Option<String>,
    pub active: bool,
    pub stamp: u64,
    pub publish_log: Vec<(usize, u64)>,
    /// the clock as a loom object: reading the time is an operation loom's
    /// partial-order reduction sees (all reads of the clock are mutually
    /// dependent), so no interleaving that differs in the order of clock
    /// reads is pruned
    pub loom_clock: Option<Rc<loom::sync::atomic::AtomicU64>>,
}

impl Exec {
    fn new() -> Self {
        Exec {
            knobs: Knobs::default(),
            clock: 0,
            parks: 0,
            weak_cas: 0,
            threads: Vec::new(),
            regions: BTreeMap::new(),
            cells: BTreeMap::new(),
            touches: BTreeMap::new(),
            counters: Counters::default(),
            violation: None,
            active: false,
            stamp: 0,
            publish_log: Vec::new(),
            loom_clock: None,
        }
    }
}

thread_local! {
    static EX: RefCell<Exec> = RefCell::new(Exec::new());
    static TOTALS: RefCell<Counters> = RefCell::new(Counters::default());
    static ON_VIOLATION: RefCell<Option<Box<dyn Fn(&str)>>> = RefCell::new(None);
}

pub(crate) fn with<R>(f: impl FnOnce(&mut Exec) -> R) -> R {
    EX.with(|e| f(&mut e.borrow_mut()))
}

/// Like `with`, but gives up when the state is already borrowed (allocator
/// hook re-entering from inside the tracker).
pub(crate) fn try_with(f: impl FnOnce(&mut Exec)) {
    let _ = EX.try_with(|e| {
        if let Ok(mut g) = e.try_borrow_mut() {
            f(&mut g)
        }
    });
}

/// State of the calling loom thread (created on first use).
pub(crate) fn with_thread<R>(f: impl FnOnce(&mut Exec, usize) -> R) -> R {
    with_thread_of(loom::thread::current().id(), f)
}

/// State of the loom thread `id` (created on first use).
pub(crate) fn with_thread_of<R>(id: ThreadId, f: impl FnOnce(&mut Exec, usize) -> R) -> R {
    with(|e| {
        let idx = match e.threads.iter().position(|(t, _)| *t == id) {
            Some(i) => i,
            None => {
                let name = 100 + e.threads.len();
                e.threads.push((
                    id,
                    PerThread {
                        name,
                        spin: [0; 4],
                        peer: Vec::new(),
                        nowait: None,
                        unyielded: 0,
                        lockspun: 0,
                        holds: Vec::new(),
                    },
                ));
                e.threads.len() - 1
            }
        };
        f(e, idx)
    })
}

/// Set once per process (before the first execution).
pub fn set_knobs(k: Knobs) {
    with(|e| e.knobs = k);
}

pub fn set_tracking(on: bool) {
    with(|e| e.knobs.track = on);
}

pub fn set_nowait_checks(on: bool) {
    with(|e| e.knobs.nowait = on);
}

pub fn tracking() -> bool {
    with(|e| e.knobs.track)
}

pub fn knobs() -> Knobs {
    with(|e| e.knobs.clone())
}

/// Callback run (with the message) the moment a shim monitor detects a
/// violation, before the panic that aborts the execution.
pub fn on_violation(f: Box<dyn Fn(&str)>) {
    ON_VIOLATION.with(|c| *c.borrow_mut() = Some(f));
}

/// A weak compare-exchange may fail although the word holds the expected
/// value; loom's never does.  In the spurious environments (`spurious_park ==
/// Some(n)`) the n-th weak compare-exchange of the execution fails that way.
/// (The unmodified crate has no weak compare-exchange.)
pub(crate) fn weak_cas_fails() -> bool {
    with(|e| {
        if !e.active {
            return false;
        }
        let n = e.weak_cas;
        e.weak_cas += 1;
        e.knobs.spurious_park == Some(n)
    })
}

/// First call of every execution (inside `loom::model`'s closure).
pub fn begin_execution() {
    with(|e| {
        let knobs = e.knobs.clone();
        let old = std::mem::replace(e, Exec::new());
        e.knobs = knobs;
        e.active = true;
        e.loom_clock = Some(Rc::new(loom::sync::atomic::AtomicU64::new(0)));
        // counters of the finished execution are accumulated
        TOTALS.with(|t| add(&mut t.borrow_mut(), &old.counters));
        // loom objects of the previous execution are dead handles now
        drop(old);
    });
}

/// Fold the counters of the execution in progress into the totals (the
/// harness calls it at the end of each execution) .
pub fn end_execution() {
    with(|e| {
        let c = std::mem::take(&mut e.counters);
        TOTALS.with(|t| add(&mut t.borrow_mut(), &c));
        e.active = false;
        e.loom_clock = None;
        e.cells.clear();
        e.touches.clear();
        e.regions.clear();
        e.threads.clear();
    });
}

fn add(t: &mut Counters, c: &Counters) {
    t.parks += c.parks;
    t.spurious_parks += c.spurious_parks;
    t.unparks_seen += c.unparks_seen;
    t.yields += c.yields;
    t.atomic_ops += c.atomic_ops;
    t.clock_reads += c.clock_reads;
    t.spin_cuts += c.spin_cuts;
    t.publishes += c.publishes;
    t.retires += c.retires;
    t.peer_entries += c.peer_entries;
    t.tracked_reads += c.tracked_reads;
    t.tracked_writes += c.tracked_writes;
    t.nowait_regions += c.nowait_regions;
    t.nowait_max_ops = t.nowait_max_ops.max(c.nowait_max_ops);
}

pub fn take_totals() -> Counters {
    TOTALS.with(|t| std::mem::take(&mut *t.borrow_mut()))
}

/// Counters of the execution in progress.
pub fn counters() -> Counters {
    with(|e| e.counters.clone())
}

/// The harness names its threads 0..n so that reports are stable.
pub fn register_thread(name: usize) {
    with_thread(|e, i| e.threads[i].1.name = name);
}

pub fn thread_name() -> usize {
    with_thread(|e, i| e.threads[i].1.name)
}

/// Global event counter of the execution (loom runs one thread at a time, so
/// stamps are consistent with real time).
pub fn stamp() -> u64 {
    with(|e| {
        e.stamp += 1;
        e.stamp
    })
}

/// (thread name, stamp) of every waiter publication so far.
pub fn publishes() -> Vec<(usize, u64)> {
    with(|e| e.publish_log.clone())
}

pub fn violation_recorded() -> Option<String> {
    with(|e| e.violation.clone())
}

/// A monitor of the shim found the property broken in this execution.
#[track_caller]
pub fn violation(kind: &str, msg: &str) -> ! {
    let text = format!("{kind}: {msg}");
    let first = with(|e| {
        if e.violation.is_none() {
            e.violation = Some(text.clone());
            true
        } else {
            false
        }
    });
    if first {
        ON_VIOLATION.with(|c| {
            if let Some(f) = c.borrow().as_ref() {
                f(&text)
            }
        });
    }
    panic!("KANAL-VERIF-VIOLATION {text}");
}

// ------------------------------------------------------------------ spin cut

/// Hook placed immediately before a counted spin loop.
#[inline(never)]
pub fn spin_begin(site: usize) {
    with_thread(|e, i| {
        if e.knobs.nowait && e.threads[i].1.nowait.is_some() {
            // entering a wait-for-peer loop inside a non-blocking call
            e.violation
                .get_or_insert_with(|| format!("nowait: signal wait loop (site {site}) entered inside a non-blocking operation"));
        }
        e.threads[i].1.spin[site & 3] = 0;
    });
    check_not_holding("a signal wait loop is entered");
    if let Some(v) = violation_recorded() {
        if v.starts_with("nowait") {
            violation("nowait", &v);
        }
    }
}

/// Hook at the top of the body of a counted spin loop: true = leave the loop
/// now.  k failed iterations are stutter-equivalent to one (DESIGN §2.1).
#[inline(never)]
pub fn spin_cut(site: usize) -> bool {
    with_thread(|e, i| {
        let b = e.knobs.spin_budget;
        let c = &mut e.threads[i].1.spin[site & 3];
        if *c >= b {
            e.counters.spin_cuts += 1;
            true
        } else {
            *c += 1;
            false
        }
    })
}

// ------------------------------------------------------------------ nowait

/// Run `f` (one non-blocking kanal call) under the restrictions of `kind`.
pub fn nowait<R>(kind: NoWait, f: impl FnOnce() -> R) -> R {
    with_thread(|e, i| {
        e.threads[i].1.nowait = Some((kind, 0, Vec::new()));
        e.counters.nowait_regions += 1;
    });
    let r = f();
    with_thread(|e, i| {
        if let Some((_, ops, _)) = e.threads[i].1.nowait.take() {
            e.counters.nowait_max_ops = e.counters.nowait_max_ops.max(ops);
        }
    });
    r
}

/// The calling thread acquired / released the lock word at `addr`.
pub(crate) fn lock_acquired(addr: usize) {
    with_thread(|e, i| e.threads[i].1.holds.push(addr));
}
pub(crate) fn lock_released(addr: usize) {
    // the releasing thread is the holder (lock_api guards are not sent across
    // threads by kanal); be tolerant if it is not
    with(|e| {
        for t in e.threads.iter_mut() {
            t.1.holds.retain(|a| *a != addr);
        }
    });
}
/// Waiting for a peer (signal wait loop, park) while holding the channel lock
/// makes every other thread's non-blocking operation wait for that peer too.
pub(crate) fn check_not_holding(what: &str) {
    let bad = with_thread(|e, i| e.knobs.nowait && !e.threads[i].1.holds.is_empty());
    if bad {
        violation(
            "nowait",
            &format!("{what} while holding the channel lock: the non-blocking operations of every other thread now wait for that peer too"),
        );
    }
}

/// Should this sleep()/yield_now() really yield to loom?
pub(crate) fn should_yield() -> bool {
    with_thread(|e, i| {
        if e.threads[i].1.unyielded < e.knobs.stall {
            e.threads[i].1.unyielded += 1;
            false
        } else {
            true
        }
    })
}

/// Should this failed lock acquisition return at once (and be retried by the
/// lock's own loop) rather than block until the word is written?
pub(crate) fn take_lock_spin() -> bool {
    with_thread(|e, i| {
        if e.threads[i].1.lockspun < e.knobs.lock_spin {
            e.threads[i].1.lockspun += 1;
            true
        } else {
            false
        }
    })
}

/// Deep part of a long `lock_spin` run: past the first 64 failures of the
/// thread and still within the budget.
pub(crate) fn take_lock_spin_deep() -> bool {
    with_thread(|e, i| {
        let n = e.threads[i].1.lockspun;
        if n >= 64 && n < e.knobs.lock_spin && e.threads[i].1.nowait.is_none() {
            e.threads[i].1.lockspun += 1;
            true
        } else {
            false
        }
    })
}

/// Is the calling loom thread inside a no-wait region?
pub fn in_nowait_lock() -> bool {
    with_thread(|e, i| matches!(e.threads[i].1.nowait, Some((NoWait::Lock, _, _))))
}

pub(crate) enum Ev {
    Park,
    Yield,
    /// pure load of a signal state word at this address
    AtomicLoadU8(usize),
    AtomicOther,
}

/// Upper bound on shim-visible operations of one `*_realtime` call: try_lock
/// CAS + unlock store + hand-off (CAS, store, unpark ...) stay far below it;
/// one failed blocking acquisition already exceeds it through its yields.
pub const NOWAIT_LOCK_MAX_OPS: u64 = 12;

pub(crate) fn event(ev: Ev) {
    let bad: Option<String> = with_thread(|e, i| {
        match ev {
            Ev::Park => e.counters.parks += 1,
            Ev::Yield => e.counters.yields += 1,
            _ => e.counters.atomic_ops += 1,
        }
        if !e.knobs.nowait {
            return None;
        }
        let Some((kind, ops, loads)) = e.threads[i].1.nowait.as_mut() else {
            return None;
        };
        *ops += 1;
        match (*kind, &ev) {
            (_, Ev::Park) => Some("park() inside a non-blocking operation".into()),
            // one look at a state word is not waiting; looking again is polling
            (_, Ev::AtomicLoadU8(a)) => {
                if loads.contains(a) {
                    Some("repeated load of one signal state word (polling for a peer) inside a non-blocking operation".into())
                } else {
                    loads.push(*a);
                    None
                }
            }
            (NoWait::Lock, Ev::Yield) => {
                Some("yield/sleep (waiting for the channel lock) inside a realtime operation".into())
            }
            (NoWait::Lock, _) if *ops > NOWAIT_LOCK_MAX_OPS => Some(format!(
                "more than {NOWAIT_LOCK_MAX_OPS} synchronisation steps inside a realtime operation"
            )),
            _ => None,
        }
    });
    if let Some(m) = bad {
        violation("nowait", &m);
    }
}
