//! Virtual time.  `Instant::now()` returns the execution's tick counter and
//! advances it; a `Duration` of k nanoseconds is k ticks.  A timed operation
//! therefore expires after a fixed number of polls of its own loop while loom
//! interleaves the peer at every position relative to them.

use crate::ctl::with;
use std::ops::{Add, Sub};
use std::time::Duration;

#[derive(Clone, Copy, Debug, PartialEq, Eq, PartialOrd, Ord, Hash)]
pub struct Instant(u64);

fn ticks(d: Duration) -> u64 {
    d.as_nanos().min(u64::MAX as u128 / 4) as u64
}

/// like std: adding an enormous duration overflows
fn overflows(d: Duration) -> bool {
    d.as_nanos() > (u64::MAX as u128 / 8)
}

impl Instant {
    pub fn now() -> Instant {
        // the read-and-advance is a loom RMW (Relaxed: it orders nothing), so
        // the scheduler branches here and partial-order reduction knows that
        // two clock reads do not commute
        let (lc, tick) = with(|e| (e.loom_clock.clone(), e.knobs.tick));
        if let Some(lc) = lc {
            let t = lc.fetch_add(tick, std::sync::atomic::Ordering::Relaxed);
            with(|e| {
                e.clock = t + tick;
                e.counters.clock_reads += 1;
            });
            return Instant(t);
        }
        with(|e| {
            let t = e.clock;
            e.clock += e.knobs.tick;
            e.counters.clock_reads += 1;
            Instant(t)
        })
    }
    pub fn checked_add(&self, d: Duration) -> Option<Instant> {
        if overflows(d) {
            return None;
        }
        self.0.checked_add(ticks(d)).map(Instant)
    }
    pub fn checked_sub(&self, d: Duration) -> Option<Instant> {
        self.0.checked_sub(ticks(d)).map(Instant)
    }
    pub fn duration_since(&self, earlier: Instant) -> Duration {
        Duration::from_nanos(self.0.saturating_sub(earlier.0))
    }
    pub fn saturating_duration_since(&self, earlier: Instant) -> Duration {
        self.duration_since(earlier)
    }
    pub fn checked_duration_since(&self, earlier: Instant) -> Option<Duration> {
        self.0.checked_sub(earlier.0).map(Duration::from_nanos)
    }
    pub fn elapsed(&self) -> Duration {
        Instant::now().duration_since(*self)
    }
    pub fn ticks(&self) -> u64 {
        self.0
    }
}

impl Add<Duration> for Instant {
    type Output = Instant;
    fn add(self, d: Duration) -> Instant {
        self.checked_add(d).expect("overflow when adding duration to instant")
    }
}
impl Sub<Duration> for Instant {
    type Output = Instant;
    fn sub(self, d: Duration) -> Instant {
        self.checked_sub(d).expect("overflow when subtracting duration from instant")
    }
}
impl Sub<Instant> for Instant {
    type Output = Duration;
    fn sub(self, o: Instant) -> Duration {
        self.duration_since(o)
    }
}

/// Current virtual time, without advancing it (for oracles).
pub fn peek() -> u64 {
    with(|e| e.clock)
}
