//! Atomics of the hooked build: loom atomics (C11 model, every access a
//! scheduling point) behind std's API.  Integer atomics are created eagerly
//! (kanal creates them at run time, inside the model).  `AtomicBool` — the
//! word of kanal's spin lock, which lock_api needs `const`-constructible — is
//! created lazily on first use; the harness touches every new channel once in
//! the creating thread so that the creation is ordered before all other uses.

use crate::ctl::{event, Ev};
use std::sync::atomic::Ordering;
use std::sync::OnceLock;

pub fn fence(order: Ordering) {
    event(Ev::AtomicOther);
    loom::sync::atomic::fence(order)
}

macro_rules! int_atomic {
    ($name:ident, $t:ty, $is_u8:expr) => {
        #[derive(Debug)]
        pub struct $name(loom::sync::atomic::$name);
        impl $name {
            #[track_caller]
            pub fn new(v: $t) -> Self {
                Self(loom::sync::atomic::$name::new(v))
            }
            #[inline]
            fn touch(&self, load: bool) {
                let a = self as *const Self as usize;
                crate::track::shim_access(a);
                if load && $is_u8 {
                    event(Ev::AtomicLoadU8(a))
                } else {
                    event(Ev::AtomicOther)
                }
            }
            #[track_caller]
            pub fn load(&self, o: Ordering) -> $t {
                self.touch(true);
                self.0.load(o)
            }
            #[track_caller]
            pub fn store(&self, v: $t, o: Ordering) {
                self.touch(false);
                self.0.store(v, o)
            }
            #[track_caller]
            pub fn swap(&self, v: $t, o: Ordering) -> $t {
                self.touch(false);
                self.0.swap(v, o)
            }
            #[track_caller]
            pub fn compare_exchange(&self, c: $t, n: $t, s: Ordering, f: Ordering) -> Result<$t, $t> {
                self.touch(false);
                self.0.compare_exchange(c, n, s, f)
            }
            #[track_caller]
            pub fn compare_exchange_weak(&self, c: $t, n: $t, s: Ordering, f: Ordering) -> Result<$t, $t> {
                self.touch(false);
                if crate::ctl::weak_cas_fails() {
                    // spurious failure: a load with the failure ordering
                    return Err(self.0.load(f));
                }
                self.0.compare_exchange_weak(c, n, s, f)
            }
            #[track_caller]
            pub fn fetch_add(&self, v: $t, o: Ordering) -> $t {
                self.touch(false);
                self.0.fetch_add(v, o)
            }
            #[track_caller]
            pub fn fetch_sub(&self, v: $t, o: Ordering) -> $t {
                self.touch(false);
                self.0.fetch_sub(v, o)
            }
            #[track_caller]
            pub fn fetch_or(&self, v: $t, o: Ordering) -> $t {
                self.touch(false);
                self.0.fetch_or(v, o)
            }
            #[track_caller]
            pub fn fetch_and(&self, v: $t, o: Ordering) -> $t {
                self.touch(false);
                self.0.fetch_and(v, o)
            }
            #[track_caller]
            pub fn fetch_xor(&self, v: $t, o: Ordering) -> $t {
                self.touch(false);
                self.0.fetch_xor(v, o)
            }
            #[track_caller]
            pub fn fetch_max(&self, v: $t, o: Ordering) -> $t {
                self.touch(false);
                self.0.fetch_max(v, o)
            }
            #[track_caller]
            pub fn fetch_min(&self, v: $t, o: Ordering) -> $t {
                self.touch(false);
                self.0.fetch_min(v, o)
            }
            #[track_caller]
            pub fn fetch_update<F: FnMut($t) -> Option<$t>>(
                &self,
                s: Ordering,
                f: Ordering,
                func: F,
            ) -> Result<$t, $t> {
                self.touch(false);
                self.0.fetch_update(s, f, func)
            }
            pub fn get_mut(&mut self) -> $t {
                unsafe { self.0.unsync_load() }
            }
            pub fn into_inner(self) -> $t {
                self.0.into_inner()
            }
        }
        impl From<$t> for $name {
            fn from(v: $t) -> Self {
                Self::new(v)
            }
        }
    };
}

int_atomic!(AtomicU8, u8, true);
int_atomic!(AtomicU16, u16, false);
int_atomic!(AtomicU32, u32, false);
int_atomic!(AtomicU64, u64, false);
int_atomic!(AtomicUsize, usize, false);
int_atomic!(AtomicI8, i8, false);
int_atomic!(AtomicI16, i16, false);
int_atomic!(AtomicI32, i32, false);
int_atomic!(AtomicI64, i64, false);
int_atomic!(AtomicIsize, isize, false);

/// `AtomicPtr` of the hooked build.
#[derive(Debug)]
pub struct AtomicPtr<T>(loom::sync::atomic::AtomicPtr<T>);
impl<T> AtomicPtr<T> {
    #[track_caller]
    pub fn new(p: *mut T) -> Self {
        Self(loom::sync::atomic::AtomicPtr::new(p))
    }
    fn touch(&self) {
        crate::track::shim_access(self as *const Self as usize);
        event(Ev::AtomicOther);
    }
    #[track_caller]
    pub fn load(&self, o: Ordering) -> *mut T {
        self.touch();
        self.0.load(o)
    }
    #[track_caller]
    pub fn store(&self, p: *mut T, o: Ordering) {
        self.touch();
        self.0.store(p, o)
    }
    #[track_caller]
    pub fn swap(&self, p: *mut T, o: Ordering) -> *mut T {
        self.touch();
        self.0.swap(p, o)
    }
    #[track_caller]
    pub fn compare_exchange(&self, c: *mut T, n: *mut T, s: Ordering, f: Ordering) -> Result<*mut T, *mut T> {
        self.touch();
        self.0.compare_exchange(c, n, s, f)
    }
    #[track_caller]
    pub fn compare_exchange_weak(&self, c: *mut T, n: *mut T, s: Ordering, f: Ordering) -> Result<*mut T, *mut T> {
        self.touch();
        self.0.compare_exchange_weak(c, n, s, f)
    }
}

/// Lazily created loom `AtomicBool` with a `const fn new` — in kanal this is
/// the word of the spin lock.
///
/// Waiting made visible: a failed acquisition attempt (failed CAS, or a swap
/// that found the word already set) outside a no-wait region *blocks* the
/// calling loom thread until the word is written again.  Retrying while
/// nobody has written the word is bound to fail again, so the schedules this
/// removes are stutter-equivalent to the ones kept, and the attempt still
/// returns its failure afterwards (a delay is always a legal behaviour).
/// Without it two spinners can alternate forever at yield points under loom's
/// unfair scheduler (an infinite schedule tree), and the back-to-back retries
/// of `spin_cond` blow the tree up.  Registration happens with no scheduling
/// point after the failed RMW (which read the latest value), so a release
/// cannot slip in between: no lost wake-up.  Inside a no-wait region
/// (`try_lock` of the realtime operations, C17's T role) nothing blocks.
pub struct AtomicBool {
    init: bool,
    cell: OnceLock<loom::sync::atomic::AtomicBool>,
    waiters: std::sync::Mutex<Vec<loom::thread::Thread>>,
    /// latest value in modification order (loom runs one thread at a time, so
    /// a plain mirror updated at every write is exact); used to tell a genuine
    /// failed acquisition from a spurious failure of a weak CAS
    mirror: std::sync::atomic::AtomicBool,
}

impl std::fmt::Debug for AtomicBool {
    fn fmt(&self, f: &mut std::fmt::Formatter<'_>) -> std::fmt::Result {
        f.write_str("AtomicBool(shim)")
    }
}

impl AtomicBool {
    pub const fn new(v: bool) -> Self {
        AtomicBool {
            init: v,
            cell: OnceLock::new(),
            waiters: std::sync::Mutex::new(Vec::new()),
            mirror: std::sync::atomic::AtomicBool::new(v),
        }
    }
    #[track_caller]
    fn a(&self) -> &loom::sync::atomic::AtomicBool {
        event(Ev::AtomicOther);
        self.cell
            .get_or_init(|| loom::sync::atomic::AtomicBool::new(self.init))
    }
    fn failed(&self, wanted: bool) {
        if crate::ctl::in_nowait_lock() {
            return;
        }
        if self.mirror.load(Ordering::Relaxed) == wanted {
            // the word has the value the attempt expected: a spurious failure
            // (weak CAS), nobody is going to write the word for us
            loom::thread::yield_now();
            return;
        }
        if crate::ctl::take_lock_spin() {
            return;
        }
        self.waiters.lock().unwrap().push(loom::thread::current());
        loom::thread::park();
    }
    fn written(&self, v: bool) {
        self.mirror.store(v, Ordering::Relaxed);
        if v {
            crate::ctl::lock_acquired(self as *const Self as usize);
        } else {
            crate::ctl::lock_released(self as *const Self as usize);
        }
        let ws: Vec<_> = std::mem::take(&mut *self.waiters.lock().unwrap());
        for w in ws {
            w.unpark();
        }
    }
    #[track_caller]
    pub fn load(&self, o: Ordering) -> bool {
        self.a().load(o)
    }
    #[track_caller]
    pub fn store(&self, v: bool, o: Ordering) {
        self.a().store(v, o);
        self.written(v);
    }
    #[track_caller]
    pub fn swap(&self, v: bool, o: Ordering) -> bool {
        let r = self.a().swap(v, o);
        if r == v {
            if v {
                self.failed(!v);
            }
        } else {
            self.written(v);
        }
        r
    }
    #[track_caller]
    pub fn compare_exchange(&self, c: bool, n: bool, s: Ordering, f: Ordering) -> Result<bool, bool> {
        // Deep inside a long `lock_spin` run (after the first 64 failures of
        // this thread, which are ordinary scheduling points) a failing attempt
        // is answered from the mirror without a loom operation: the mirror is
        // exact, a failed compare_exchange with a Relaxed failure ordering has
        // no memory effect, and loom's per-thread clocks (16 bit) could not
        // count the hundreds of thousands of attempts of a long hold anyway.
        if f == Ordering::Relaxed && !c && n && self.mirror.load(Ordering::Relaxed) && crate::ctl::take_lock_spin_deep() {
            return Err(true);
        }
        let r = self.a().compare_exchange(c, n, s, f);
        match r {
            Ok(_) => self.written(n),
            Err(_) => self.failed(c),
        }
        r
    }
    #[track_caller]
    pub fn compare_exchange_weak(&self, c: bool, n: bool, s: Ordering, f: Ordering) -> Result<bool, bool> {
        let r = self.a().compare_exchange_weak(c, n, s, f);
        match r {
            Ok(_) => self.written(n),
            Err(_) => self.failed(c),
        }
        r
    }
    #[track_caller]
    pub fn fetch_or(&self, v: bool, o: Ordering) -> bool {
        let r = self.a().fetch_or(v, o);
        if r && v {
            self.failed(false);
        } else {
            self.written(r | v);
        }
        r
    }
    #[track_caller]
    pub fn fetch_and(&self, v: bool, o: Ordering) -> bool {
        let r = self.a().fetch_and(v, o);
        self.written(r & v);
        r
    }
    #[track_caller]
    pub fn fetch_xor(&self, v: bool, o: Ordering) -> bool {
        let r = self.a().fetch_xor(v, o);
        self.written(r ^ v);
        r
    }
}
