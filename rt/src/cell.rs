//! `UnsafeCell` of the hooked build: the real cell (same layout), whose
//! `get()` tells the tracker that the calling thread is about to touch this
//! address (liveness of the waiter it belongs to is checked when the caller is
//! a peer working through a raw waiter pointer).  Whether the access is a read
//! or a write is told by the explicit `rd`/`wr` hooks next to it.

#[repr(transparent)]
pub struct UnsafeCell<T: ?Sized>(::core::cell::UnsafeCell<T>);

impl<T> UnsafeCell<T> {
    #[inline(always)]
    pub const fn new(v: T) -> Self {
        UnsafeCell(::core::cell::UnsafeCell::new(v))
    }
    #[inline(always)]
    pub fn into_inner(self) -> T {
        self.0.into_inner()
    }
}

impl<T: ?Sized> UnsafeCell<T> {
    #[inline(always)]
    pub fn get(&self) -> *mut T {
        crate::track::cell_access(self as *const Self as *const u8 as usize);
        self.0.get()
    }
    #[inline(always)]
    pub fn get_mut(&mut self) -> &mut T {
        self.0.get_mut()
    }
    #[inline(always)]
    pub const fn raw_get(this: *const Self) -> *mut T {
        ::core::cell::UnsafeCell::raw_get(this as *const ::core::cell::UnsafeCell<T>)
    }
}

impl<T: Default> Default for UnsafeCell<T> {
    fn default() -> Self {
        UnsafeCell::new(T::default())
    }
}

impl<T> From<T> for UnsafeCell<T> {
    fn from(v: T) -> Self {
        UnsafeCell::new(v)
    }
}

impl<T: ?Sized> ::core::fmt::Debug for UnsafeCell<T> {
    fn fmt(&self, f: &mut ::core::fmt::Formatter<'_>) -> ::core::fmt::Result {
        f.write_str("UnsafeCell { .. }")
    }
}
