//! kanal_verif_rt — the shim the hooked build of kanal resolves `core`/`std` to.
//!
//! `#[cfg(kanal_verif)] use crate::verif::{core, std};` in a kanal source file
//! shadows the two names, so `core::sync::atomic::AtomicU8`,
//! `std::thread::park`, `std::time::Instant` … become the items below: loom
//! atomics / threads (every access a scheduling point under loom's C11
//! model), a virtual clock, a tracked `UnsafeCell`, plus the explicit hooks
//! (`spin_begin/spin_cut`, `rd/wr`, `publish/retire`, `peer_enter`) and the
//! per-execution monitors the harness reads.

pub mod atomic;
pub mod cell;
pub mod clock;
pub mod ctl;
pub mod thread;
pub mod track;

pub use ctl::{spin_begin, spin_cut};
pub use track::{peer_enter, publish, rd, retire, wr};

/// Facade for the name `core` inside hooked kanal files.
pub mod core {
    pub use ::core::*;
    pub mod sync {
        pub use ::core::sync::*;
        pub mod atomic {
            pub use crate::atomic::{
                fence, AtomicBool, AtomicI16, AtomicI32, AtomicI64, AtomicI8, AtomicIsize, AtomicPtr, AtomicU16, AtomicU32,
                AtomicU64, AtomicU8, AtomicUsize,
            };
            pub use ::core::sync::atomic::*;
        }
    }
    pub mod cell {
        pub use crate::cell::UnsafeCell;
        pub use ::core::cell::*;
    }
}

/// Facade for the name `std` inside hooked kanal files.
pub mod std {
    pub use ::std::*;
    pub mod thread {
        pub use crate::thread::{
            available_parallelism, current, park, park_timeout, sleep, yield_now, Thread,
        };
        pub use ::std::thread::*;
    }
    pub mod time {
        pub use crate::clock::Instant;
        pub use ::std::time::*;
    }
    pub mod sync {
        pub use ::std::sync::*;
        pub use loom::sync::{Mutex, MutexGuard};
        pub mod atomic {
            pub use crate::atomic::{
                fence, AtomicBool, AtomicI16, AtomicI32, AtomicI64, AtomicI8, AtomicIsize, AtomicPtr, AtomicU16, AtomicU32,
                AtomicU64, AtomicU8, AtomicUsize,
            };
            pub use ::std::sync::atomic::*;
        }
    }
    pub mod cell {
        pub use crate::cell::UnsafeCell;
        pub use ::std::cell::*;
    }
}
