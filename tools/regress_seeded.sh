#!/bin/bash
# regress_seeded.sh [ids...] : run, for every seeded change, the quick tier of the
# checks named in its meta.json (caught_by) against a private copy of /verif and a
# scratch worktree of /repo, so that neither /repo nor /verif is disturbed.
# FIRST_ONLY=1: only the first check named for each change.
set -u
V=/tmp/vreg; R=/tmp/vreg-repo
rm -rf $V; mkdir -p $V
rsync -a --exclude target --exclude work --exclude replays --exclude .git /verif/ $V/
git -C /repo worktree remove --force $R 2>/dev/null; rm -rf $R
git -C /repo worktree add -q --detach $R HEAD
sed -i "s|/repo/src/lib.rs|$R/src/lib.rs|" $V/hooked/Cargo.toml
(cd $V && CARGO_TARGET_DIR=$V/target/default cargo build --release --offline -p kmc 2>&1 | tail -1)
ids="$@"; [ -z "$ids" ] && ids=$(ls /verif/seeded | grep '^M')
for id in $ids; do
  checks=$(python3 -c "
import json,re
m=json.load(open('/verif/seeded/$id/meta.json'))
cs=[]
for c in m['caught_by_quick_checks']:
    for x in re.findall(r'C\d\d', c.split('(')[0]):
        if x not in cs: cs.append(x)
print(' '.join(cs[:1] if '${FIRST_ONLY:-}' else cs))")
  git -C $R apply /verif/seeded/$id/patch.diff || { echo "$id PATCH-FAILED"; continue; }
  line="$id:"
  for c in $checks; do
    (cd $V && ./check $c --tier quick > /tmp/vreg-out.txt 2>&1); rc=$?
    line="$line $c=$rc"
  done
  git -C $R checkout -q -- .
  echo "$line"
done
git -C /repo worktree remove --force $R; rm -rf $V
