#!/bin/bash
# run_mutant.sh <patchfile> <check>... : apply a seeded change to /repo, run the
# quick tier of the given checks, undo the change.  One line per check.
P=$1; shift
git -C /repo diff --quiet || { echo "/repo is dirty"; exit 9; }
git -C /repo apply $P || { echo "patch does not apply"; exit 9; }
trap 'git -C /repo checkout -q -- . ; git -C /verif checkout -q -- evidence' EXIT
for c in "$@"; do
  out=$(cd /verif && timeout 1500 ./check $c --tier ${TIER:-quick} 2>&1); rc=$?
  v=$(echo "$out" | grep -m1 "^  violation" | cut -c1-330)
  echo "$c rc=$rc $(echo "$out" | grep -E "^$c (quick|thorough)" | sed 's/model_states.*wall/wall/') $v"
done
