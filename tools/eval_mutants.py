#!/usr/bin/env python3
"""eval_mutants.py ID:k[:check,check...] ... : run checks against seeded changes (serially, against /repo)."""
import subprocess, sys, json, os
home_extra = {"C12": ["C12", "C09", "C11"], "C16": ["C16", "C07"], "C18": ["C18", "C03"]}
for spec in sys.argv[1:]:
    parts = spec.split(":")
    pid, k = parts[0], parts[1]
    checks = parts[2].split(",") if len(parts) > 2 else home_extra.get(pid, [pid])
    od = os.environ.get("OUTDIR", "OUT")
    patch = f"/tmp/mut-{pid}/{od}/patch{k}.rebased.diff"
    if not os.path.exists(patch):
        patch = f"/tmp/mut-{pid}/{od}/patch{k}.diff"
    r = subprocess.run(["/verif/tools/run_mutant.sh", patch] + checks, capture_output=True, text=True)
    for line in r.stdout.strip().splitlines():
        print(f"[{pid}/{k}] {line[:420]}", flush=True)
