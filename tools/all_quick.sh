#!/bin/bash
# run every registered check's quick (or $TIER) command; one line each
cd /verif
for c in $(python3 -c "import json; print(' '.join(c['property_id'] for c in json.load(open('MANIFEST.json'))['checks']))"); do
  s=$(date +%s.%N); out=$(./check $c --tier ${TIER:-quick} 2>&1); rc=$?; e=$(date +%s.%N)
  printf "%s rc=%d %.1fs %s\n" $c $rc $(echo "$e - $s" | bc) "$(echo "$out" | grep -E "^$c (quick|thorough)|VIOLATION|MACHINERY|KNOWN" | tr '\n' ' ' | cut -c1-260)"
done
