#!/bin/bash
# confirm_mutant.sh <ID> <k> : in the scratch worktree /tmp/mut-<ID>, confirm that
# patch<k>.diff applies to the current /repo HEAD, the suite still passes with it,
# the demo fails with it and passes without it.  Writes OUT/confirm<k>.txt
ID=$1; K=$2; WT=/tmp/mut-$ID; OUT=$WT/${OUTDIR:-OUT}; LOG=$OUT/confirm$K.txt
exec > $LOG 2>&1
cd $WT || exit 9
H=$(git -C /repo rev-parse HEAD)
git checkout -q -- . ; git clean -fdq tests ; git checkout -q --detach $H || exit 9
echo "base=$H"
if git apply --check $OUT/patch$K.diff 2>/dev/null; then git apply $OUT/patch$K.diff; echo "apply=clean";
elif git apply -3 $OUT/patch$K.diff 2>/dev/null; then echo "apply=3way"; git reset -q;
elif patch -p1 --fuzz=3 -s < $OUT/patch$K.diff; then echo "apply=fuzz"; find . -name '*.orig' -delete; find . -name '*.rej' -delete;
else echo "apply=FAILED"; exit 1; fi
git diff > $OUT/patch$K.rebased.diff
echo "--- suite with change"
timeout 600 cargo test --offline 2>&1 | grep -E "^test result|error(\[|:)" | head
cp $OUT/demo$K.rs tests/zz_demo$K.rs
echo "--- demo with change (expect failure)"
timeout 900 cargo test --offline --test zz_demo$K 2>&1 | grep -E "^test result|^test .*(FAILED|ok)|panicked|error(\[|:)|timed out" | head -20
echo "demo_with_rc=${PIPESTATUS[0]}"
git checkout -q -- src
echo "--- demo without change (expect pass)"
timeout 900 cargo test --offline --test zz_demo$K 2>&1 | grep -E "^test result|^test .*(FAILED|ok)|panicked|error(\[|:)" | head -20
echo "demo_without_rc=${PIPESTATUS[0]}"
rm -f tests/zz_demo$K.rs
echo done
