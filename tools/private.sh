#!/bin/bash
# private.sh setup            : private copy of /verif (/tmp/vpriv) built against a scratch worktree of /repo (/tmp/vpriv-repo)
# private.sh run <patch> <check>... : apply the patch there, run the quick tier of the checks, undo
# private.sh clean
# Neither /repo nor /verif is touched, so this can run next to a background run that uses them.
V=/tmp/vpriv; R=/tmp/vpriv-repo
case "$1" in
 setup)
  rm -rf $V; mkdir -p $V
  rsync -a --exclude target --exclude work --exclude replays --exclude .git /verif/ $V/
  git -C /repo worktree remove --force $R 2>/dev/null; rm -rf $R
  git -C /repo worktree add -q --detach $R HEAD
  sed -i "s|/repo/src/lib.rs|$R/src/lib.rs|" $V/hooked/Cargo.toml
  (cd $V && CARGO_TARGET_DIR=$V/target/default cargo build --release --offline -p kmc 2>&1 | tail -1) ;;
 sync)
  rsync -a --exclude target --exclude work --exclude replays --exclude .git --exclude hooked/Cargo.toml /verif/ $V/
  (cd $V && CARGO_TARGET_DIR=$V/target/default cargo build --release --offline -p kmc 2>&1 | tail -1) ;;
 run)
  P=$2; shift 2
  git -C $R diff --quiet || git -C $R checkout -q -- .
  git -C $R apply $P || { echo "patch does not apply"; exit 9; }
  for c in "$@"; do
    out=$(cd $V && timeout 1800 ./check $c --tier ${TIER:-quick} 2>&1); rc=$?
    v=$(echo "$out" | grep -m1 "^  violation" | cut -c1-330)
    echo "$c rc=$rc $(echo "$out" | grep -E "^$c (quick|thorough): programs" | sed 's/model_states.*wall/wall/') $v"
  done
  git -C $R checkout -q -- . ;;
 clean)
  git -C /repo worktree remove --force $R 2>/dev/null; rm -rf $R $V ;;
esac
