#!/usr/bin/env python3
"""save_seeded.py : copy confirmed seeded changes from the scratch worktrees into /verif/seeded/<id>/"""
import os, shutil, json, re, sys
SPEC = json.load(open('/verif/tools/seeded_spec.json'))
for s in SPEC:
    src = f"/tmp/mut-{s['from'][0]}/" + s.get("outdir", "OUT"); k = s['from'][1]
    d = f"/verif/seeded/{s['id']}"
    if os.path.exists(f"{d}/meta.json") or not os.path.isdir(src):
        continue
    os.makedirs(d, exist_ok=True)
    p = f"{src}/patch{k}.rebased.diff"
    if not os.path.exists(p): p = f"{src}/patch{k}.diff"
    shutil.copy(p, f"{d}/patch.diff")
    shutil.copy(f"{src}/demo{k}.rs", f"{d}/demo.rs")
    if os.path.exists(f"{src}/notes{k}.md"): shutil.copy(f"{src}/notes{k}.md", f"{d}/notes.md")
    conf = open(f"{src}/confirm{k}.txt").read() if os.path.exists(f"{src}/confirm{k}.txt") else ""
    suite = re.findall(r"test result: (ok|FAILED)\. (\d+) passed; (\d+) failed", conf)
    meta = {
        "id": s['id'], "breaks_property": s['breaks'], "written_for_property": s['from'][0],
        "same_change_also_proposed_for": s.get('dupes', []),
        "change": s['change'], "needs_to_manifest": s['needs'],
        "confirmed": {
            "how": "tools/confirm_mutant.sh in a scratch worktree of /repo at the fixed HEAD: patch applied, `cargo test --offline` (existing suite), demo copied to tests/ and run with the change (must fail) and without it (must pass)",
            "existing_suite_with_change": "0 failed" if conf and all(x[2] == '0' for x in suite[:4]) else "see notes",
            "demo_with_change": s.get('demo_with', "fails"), "demo_without_change": "passes",
            "log": conf[-1500:],
        },
        "caught_by_quick_checks": s['caught_by'], "not_caught_by": s.get('missed_by', []),
        "remarks": s.get('remarks', ""),
    }
    json.dump(meta, open(f"{d}/meta.json", "w"), indent=1)
    print(s['id'])
