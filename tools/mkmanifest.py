#!/usr/bin/env python3
"""Regenerates /verif/MANIFEST.json (kept valid at all times)."""
import json, subprocess, os
ROOT = os.path.dirname(os.path.dirname(os.path.abspath(__file__)))
hooks_commits = subprocess.run(["git", "-C", "/repo", "log", "--format=%h %s"], capture_output=True, text=True).stdout.splitlines()
hook_ids = [l.split()[0] for l in hooks_commits if l.split(" ", 1)[1].startswith("verif hooks")]

LEVEL = {
 "C01": ("E1 loom exploration of the real code; oracle: tag ledger (every accepted tag received exactly once or destroyed by the channel; a failed send delivers nothing; nothing invented)", "6.1"),
 "C02": ("E1; oracle on histories: no receive obtaining a later-accepted value returns before a receive obtaining an earlier-accepted one is invoked; drain order", "6.2"),
 "C03": ("E2 explicit-state exploration of the reference model (all operation-level interleavings) + E1: the outcome vector of every explored implementation execution must be in the model's outcome set", "6.3"),
 "C04": ("E1 with payload byte patterns over all size/alignment classes and happens-before tracking of the slot; transfer path decided by the schedule", "6.4"),
 "C05": ("E1; oracle: drop ledger = exactly one destructor run per value at the end of every execution; Option argument Some <=> failure", "6.5"),
 "C06": ("E1; oracle: every explored execution terminates (loom deadlock detection + step budget), incl. spurious parks, parallelism 1 and 2, wakers replaced between polls, non-initial channel states; a timed operation with a far deadline is released by close/disconnect before that deadline (virtual clock)", "6.6"),
 "C07": ("E1 with the tracker: loom's vector clocks on every raw-pointer-reached location of a waiter (payload cell, pointee slot, thread handle, waker) and no access to a retired waiter", "6.7"),
 "C08": ("E1 + E2; oracle: history invariant S(t)-R(t)<=n, len<=capacity, refusal exactly when the model says full and nobody waits", "6.8"),
 "C09": ("E1 + E2 over every sync/async assignment of the endpoints and every conversion route; all delivery/order/ownership/progress oracles", "6.9"),
 "C10": ("E1 + E2; oracle: one close succeeds, everything begun after its return fails Closed, buffered values destroyed by its return, waiters released", "6.10"),
 "C11": ("E1 + E2; oracle: disconnect never observed while a handle of that side is surely alive; buffered values first, in order; waiters released", "6.11"),
 "C12": ("E2 sequential conformance (every clone/convert/drop/close sequence up to a depth, replayed on the real code) + E1 concurrent clone/drop with counts in the model's outcome set", "6.12"),
 "C13": ("E1 with a virtual clock: deadline at every position relative to the peer; oracle: exactly one of ok/timeout/closed, never before the deadline, value moved once or not at all, nothing left behind (tracker); a closed/disconnected error before a far deadline; an observer holding the lock while the deadline passes", "6.13"),
 "C14": ("E1 + E2: results in the model's outcome set; monitors: no park / signal wait inside try_* and drain_into, additionally no yield and a step bound inside *_realtime, with the peer preempted at every point", "6.14"),
 "C15": ("E1 + E2 + tracker: future dropped at every point of its life x all schedules; delivered once xor dropped once, no access to the future afterwards, later operations per the model", "6.15"),
 "C16": ("E2 sequential conformance over all legal poll scripts (spurious polls, waker switches, polls after completion, repeated stream waits) + E1 of the same scripts racing with a peer", "6.16"),
 "C17": ("E1 on the real spin lock driven directly: overlap monitor + loom causality on the protected cell + try_lock step bound + termination, parallelism 1 and 2; the lock's own retry loop executed through all its phases and through holds of 200 000 and 13 000 000 failed attempts (lock_spin knob)", "6.17"),
 "C18": ("E2: every call sequence of the full single-thread API alphabet up to a depth (no deduplication) executed on the real code and compared with the reference model step by step; deeper on the deduplicated model state graph", "6.18"),
 "C19": ("E1 + E2: channel state x vector state x schedules; count = appended, prefix untouched, order, drained senders succeed, never waits", "6.19"),
}
TECH = {
 "C03": "explicit-state search of a reference model + exhaustive (DPOR) interleaving exploration of the real code with loom; every implementation trace validated against the model's outcome set",
 "C12": "explicit-state enumeration of call sequences against a reference model (conformance replay on the real code) + loom interleaving exploration",
 "C16": "explicit-state enumeration of poll scripts against a reference model (conformance replay on the real code) + loom interleaving exploration",
 "C18": "explicit-state enumeration of all call sequences up to a depth, replayed on the real code and compared with a reference model",
 "C17": "exhaustive interleaving exploration (loom DPOR, C11 memory model) of the real lock under a harness",
}
DEFAULT_TECH = "stateless model checking: exhaustive (DPOR, preemption-bounded where stated) exploration of thread interleavings of the real code under loom's C11 memory model, oracle evaluated on every execution"

built = json.load(open(f"{ROOT}/tools/built.json"))
checks, na = [], []
for i in range(1, 21):
    pid = f"C{i:02d}"
    if pid in built:
        text, ref = LEVEL[pid]
        checks.append({
            "property_id": pid,
            "quick_cmd": f"./check {pid} --tier quick",
            "thorough_cmd": f"./check {pid} --tier thorough",
            "evidence_file": f"evidence/{pid}.json",
            "replay_cmd_template": "./check replay {path}",
            "engine": "kmc",
            "level_claimed": {"category": "model_checking", "text": text, "design_ref": f"DESIGN.md {ref}"},
            "level_note": "trusted base: loom 0.7.2 (C11 model, DPOR; bounded DPOR where a preemption bound is listed in the evidence), rustc, the shim /verif/rt, the reference model /verif/mc/src/model.rs, the stutter-equivalence arguments for the spin cut and for modelling a failed lock acquisition as blocking (DESIGN 2.1); bounds: <=4 threads, <=3 ops per thread in the concurrent families (longer scripted single-thread prefixes where stated), capacities {0,1,2,3,unbounded} (C08 also 3 000 000), representative payload values",
            "technique": TECH.get(pid, DEFAULT_TECH),
        })
    elif pid == "C20":
        na.append({"property_id": pid, "reason": "decided by rustc's trait solver for all T (a type-checking verdict, no executions/states/schedules to enumerate): outside the model-checking family, see DESIGN.md 6.20"})
    else:
        na.append({"property_id": pid, "reason": "check under construction (not claimed yet)"})
m = {
 "version": 1,
 "setup_cmd": "./setup.sh",
 "hooks": {
  "guard": "cfg(kanal_verif)",
  "enable": "the out-of-tree package /verif/hooked (name kanal, [lib] path=/repo/src/lib.rs) whose build.rs emits cargo::rustc-cfg=kanal_verif and which links the shim /verif/rt; built by ./check and ./setup.sh into /verif/target/default",
  "baseline_off_cmd": "cd /repo && cargo test --workspace --no-fail-fast --offline",
  "source_commits": hook_ids,
  "add_only": True,
 },
 "engines": [
  {"name": "kmc", "path": "mc/", "serves_properties": sorted(built), "kind_free_text": "program IR + interpreter driving the real kanal code inside loom::model (E1), explicit-state reference model (E2), oracles on recorded histories; driver ./check shards programs over worker processes"},
  {"name": "kanal_verif_rt", "path": "rt/", "serves_properties": sorted(built), "kind_free_text": "shim the hooked build resolves core/std to: loom atomics/threads, virtual clock, happens-before and lifetime tracker, nowait monitors"},
 ],
 "checks": checks,
 "not_applicable": na,
 "notes": "fix: commits in /repo (genuine defects found by the checks, see known_findings.json and DESIGN.md 7): 1dc384a 2ee2847 c9b01bc 1df0987 fed88f8 fb461ac",
}
json.dump(m, open(f"{ROOT}/MANIFEST.json", "w"), indent=1)
print("checks:", [c["property_id"] for c in checks], "n/a:", [n["property_id"] for n in na])
