fn main() {
    println!("cargo::rustc-check-cfg=cfg(kanal_verif)");
    println!("cargo::rustc-cfg=kanal_verif");
    println!("cargo::rerun-if-changed=build.rs");
}
