//! Runs one program: reference-model exploration (outcome set), then loom
//! exploration of the real code with the oracles evaluated at the end of every
//! execution.

use crate::exec::{setup, Ctx, Flags};
use crate::hist::{self, History};
use crate::model::{self, Explored};
use crate::oracle::{self, Oracle};
use crate::payload::*;
use crate::prog::*;
use kanal_verif_rt::ctl;
use serde::{Deserialize, Serialize};
use std::cell::RefCell;
use std::collections::{BTreeMap, BTreeSet};
use std::panic::{catch_unwind, AssertUnwindSafe};
use std::sync::Arc;
use std::time::Instant;

/// Kinds of violation a run can end with; each check counts only its own.
#[derive(Clone, Copy, Debug, PartialEq, Eq, Hash, PartialOrd, Ord, Serialize, Deserialize)]
pub enum Kind {
    Oracle(Oracle),
    /// loom: every unfinished thread is blocked
    Deadlock,
    /// per-execution step budget exhausted (endless spin / retry)
    Livelock,
    /// tracker: accesses not ordered by happens-before
    DataRace,
    /// tracker: access to a waiter after its owner returned / was dropped
    UseAfterReturn,
    /// monitor: a non-blocking call waited
    NoWait,
    /// kanal itself panicked (unwrap on None, unreachable!, ...)
    Panic,
    /// wake accounting (counting wakers) differs from the model
    Wakes,
    /// two threads inside one critical section / lost update under the lock
    Overlap,
}

#[derive(Clone, Debug, Serialize, Deserialize)]
pub struct RunCfg {
    pub oracles: Vec<Oracle>,
    /// violation kinds that belong to the property being checked
    pub kinds: Vec<Kind>,
    pub track: bool,
    pub nowait: bool,
    pub max_branches: usize,
    pub wall_cap_ms: u64,
    pub model_cap: u64,
}

#[derive(Clone, Debug, Serialize, Deserialize)]
pub struct Violation {
    pub kind: Kind,
    pub message: String,
    pub execution: u64,
    pub history: Option<History>,
}

#[derive(Clone, Debug, Default, Serialize, Deserialize)]
pub struct ProgRecord {
    pub index: usize,
    pub name: String,
    pub program: Option<Program>,
    pub build: String,
    pub executions: u64,
    pub completed: bool,
    pub cap_hit: Option<String>,
    /// a violation of a kind this check does not count cut the exploration
    pub foreign: Option<String>,
    pub model_states: u64,
    pub model_transitions: u64,
    pub model_outcomes: u64,
    pub impl_outcomes: u64,
    pub distinct_histories: u64,
    pub violation: Option<Violation>,
    pub sched_points: u64,
    pub parks: u64,
    pub spurious_parks: u64,
    pub spin_cuts: u64,
    pub publishes: u64,
    pub peer_entries: u64,
    pub tracked: u64,
    pub nowait_regions: u64,
    pub nowait_max_ops: u64,
    /// transfer paths taken: buffered, written into a waiting receiver, read
    /// out of a waiting sender (counted over executions)
    pub paths: [u64; 3],
    pub wall_ms: u64,
    pub sample: Option<History>,
}

#[derive(Default)]
struct Stats {
    executions: u64,
    outcomes: BTreeSet<model::Outcome>,
    hist_shapes: BTreeSet<u64>,
    violation: Option<Violation>,
    cap: Option<String>,
    paths: [u64; 3],
    sample: Option<History>,
}

thread_local! {
    static STATS: RefCell<Stats> = RefCell::new(Stats::default());
    static LAST_PANIC: RefCell<String> = const { RefCell::new(String::new()) };
}

/// Where the panic hook writes the first panic of the program being run (a
/// loom failure can abort the process while unwinding through destructors that
/// call back into loom; the driver then still knows what happened).
pub static PANIC_SINK: std::sync::Mutex<Option<(String, usize)>> = std::sync::Mutex::new(None);
/// name of the program being run (for the same purpose)
pub static CURRENT: std::sync::Mutex<String> = std::sync::Mutex::new(String::new());

pub fn clear_last_panic() {
    LAST_PANIC.with(|l| l.borrow_mut().clear());
}

pub fn install_panic_hook() {
    std::panic::set_hook(Box::new(|info| {
        let msg = info
            .payload()
            .downcast_ref::<&str>()
            .map(|s| s.to_string())
            .or_else(|| info.payload().downcast_ref::<String>().cloned())
            .unwrap_or_else(|| "<non-string panic>".into());
        if msg.contains("KMC-EXPECTED-UNWIND") || msg.contains("send data option is None") || msg.contains("polled after result is already returned") {
            // expected / documented panics the interpreter catches on purpose
            return;
        }
        let loc = info.location().map(|l| format!(" @{}:{}", l.file(), l.line())).unwrap_or_default();
        let _ = LAST_PANIC.try_with(|l| {
            if let Ok(mut g) = l.try_borrow_mut() {
                // keep the first panic of a cascade (a tracker report wraps the
                // loom panic it caught: prefer the report)
                if msg.contains("KANAL-VERIF-VIOLATION") && !g.contains("KANAL-VERIF-VIOLATION") {
                    *g = format!("{msg}{loc}");
                }
                if g.is_empty() {
                    *g = format!("{msg}{loc}");
                    if !msg.contains("KMC-CAP") {
                        if let Ok(sink) = PANIC_SINK.try_lock() {
                            if let Some((path, idx)) = sink.as_ref() {
                                if let Ok(mut f) = std::fs::OpenOptions::new().append(true).open(path) {
                                    use std::io::Write;
                                    let _ = writeln!(
                                        f,
                                        "{}",
                                        serde_json::json!({"panic": format!("{msg}{loc}"), "idx": idx, "program": CURRENT.try_lock().map(|g| g.clone()).unwrap_or_default()})
                                    );
                                }
                            }
                        }
                    }
                }
            }
        });
        if std::env::var_os("KMC_VERBOSE_PANIC").is_some() {
            eprintln!("panic: {msg}{loc}");
        }
    }));
}

fn shape_hash(h: &History) -> u64 {
    use std::hash::{Hash, Hasher};
    let mut s = std::collections::hash_map::DefaultHasher::new();
    // history modulo stamps: order of call returns + results + drop order
    let mut calls: Vec<_> = h.calls.iter().collect();
    calls.sort_by_key(|c| c.ret);
    for c in calls {
        (c.thread, c.idx).hash(&mut s);
        c.res.hash(&mut s);
        c.opt_some.hash(&mut s);
    }
    for d in &h.drops {
        (d.tag, d.thread, d.by_harness).hash(&mut s);
    }
    s.finish()
}

fn run_typed<T: Payload>(p: &Program, cfg: &RunCfg, m: Option<Arc<Explored>>) -> Result<(), String> {
    let mut b = loom::model::Builder::new();
    // (a program that makes the lock's retry loop run for long needs room)
    b.max_branches = cfg.max_branches;
    b.preemption_bound = p.env.preempt.map(|x| x as usize);
    b.max_threads = 5;
    b.checkpoint_interval = usize::MAX / 2;
    b.log = false;
    let p = Arc::new(p.clone());
    let cfg = Arc::new(cfg.clone());
    let start = Instant::now();
    let r = catch_unwind(AssertUnwindSafe(|| {
        let p = p.clone();
        let cfg = cfg.clone();
        b.check(move || {
            if start.elapsed().as_millis() as u64 > cfg.wall_cap_ms {
                STATS.with(|s| s.borrow_mut().cap = Some(format!("wall cap {} ms", cfg.wall_cap_ms)));
                panic!("KMC-CAP");
            }
            ctl::begin_execution();
            hist::reset();
            crate::exec::reset_wakers();
            let mut sets = setup::<T>(&p);
            let flags = Arc::new(Flags::new());
            let lockprog = p.is_lock_program();
            if lockprog {
                flags.touch_lock();
            }
            // thread 0's handles exist before the others start: build its
            // context first so that a sequential prefix can run
            let (s0, r0) = sets.remove(0);
            let mut c0 = Ctx::<T>::new(0, s0, r0, flags.clone());
            let n0 = p.threads[0].ops.len();
            let pre = p.pre.min(n0);
            c0.run_range(&p, 0, pre);
            let mut joins = Vec::new();
            let uses_flags = p
                .threads
                .iter()
                .any(|t| t.ops.iter().any(|o| matches!(o, Op::Set(_) | Op::Wait(_))));
            let rest: Vec<_> = sets.drain(..).collect();
            for (i, (s, r)) in rest.into_iter().enumerate() {
                let p2 = p.clone();
                let fl = flags.clone();
                joins.push(loom::thread::spawn(move || {
                    if uses_flags {
                        fl.wait_start();
                    }
                    {
                        let mut c = Ctx::<T>::new(i + 1, s, r, fl.clone());
                        c.run(&p2);
                    }
                    fl.finished();
                }));
            }
            if uses_flags {
                let mut handles = vec![loom::thread::current()];
                handles.extend(joins.iter().map(|j| j.thread().clone()));
                flags.open(handles);
            }
            c0.run_range(&p, pre, n0);
            c0.finish();
            // wait with park loops (tolerant of late unparks), join afterwards
            flags.wait_finished(joins.len() as u32);
            for j in joins {
                j.join().unwrap();
            }
            drop(c0);
            if lockprog {
                // every acquisition's increment must be visible at the end
                let v = flags.protected_value();
                if v != flags.acquired.get() {
                    panic!(
                        "KANAL-VERIF-VIOLATION overlap: {} critical sections ran but the protected counter reads {}",
                        flags.acquired.get(),
                        v
                    );
                }
            }
            let mut h = hist::take();
            h.publishes = ctl::publishes();
            h.end_stamp = hist::stamp();
            let cnt = ctl::counters();
            ctl::end_execution();
            let exec_no = STATS.with(|s| {
                let mut s = s.borrow_mut();
                s.executions += 1;
                s.outcomes.insert(hist::outcome_with_wakes(&h, p.threads.len() == 1));
                s.hist_shapes.insert(shape_hash(&h));
                if s.sample.is_none() {
                    s.sample = Some(h.clone());
                }
                s.executions
            });
            let _ = cnt;
            // which transfer path did each received value take?
            {
                let mut paths = [0u64; 3];
                for c in &h.calls {
                    let got = match &c.res {
                        crate::hist::Res::Val(t) => vec![*t],
                        crate::hist::Res::Drained(_, v) => v.clone(),
                        _ => vec![],
                    };
                    for t in got {
                        if c.registered.is_some() {
                            paths[1] += 1; // written into the blocked receiver's slot
                        } else if h.calls.iter().any(|s| s.tag == Some(t) && s.op.is_send_like() && s.registered.is_some()) {
                            paths[2] += 1; // read out of a blocked sender's slot
                        } else {
                            paths[0] += 1; // through the buffer (or handed over at once)
                        }
                    }
                }
                STATS.with(|s| {
                    let mut s = s.borrow_mut();
                    for i in 0..3 {
                        s.paths[i] += paths[i];
                    }
                });
            }
            for o in &cfg.oracles {
                if let Err(msg) = oracle::check(*o, &p, &h, m.as_deref()) {
                    STATS.with(|s| {
                        s.borrow_mut().violation = Some(Violation {
                            kind: Kind::Oracle(*o),
                            message: msg.clone(),
                            execution: exec_no,
                            history: Some(h.clone()),
                        })
                    });
                    panic!("KMC-ORACLE {:?}: {}", o, msg);
                }
            }
        });
    }));
    match r {
        Ok(()) => Ok(()),
        Err(_) => Err(LAST_PANIC.with(|l| l.borrow().clone())),
    }
}

fn classify(msg: &str) -> Kind {
    if msg.contains("KANAL-VERIF-VIOLATION data-race") || msg.contains("Causality violation") {
        Kind::DataRace
    } else if msg.contains("KANAL-VERIF-VIOLATION use-after-return") {
        Kind::UseAfterReturn
    } else if msg.contains("KANAL-VERIF-VIOLATION overlap") {
        Kind::Overlap
    } else if msg.contains("KANAL-VERIF-VIOLATION nowait") {
        Kind::NoWait
    } else if msg.to_lowercase().contains("deadlock") {
        Kind::Deadlock
    } else if msg.contains("exceeded maximum number of branches") {
        Kind::Livelock
    } else {
        Kind::Panic
    }
}

pub fn run_program(index: usize, p: &Program, cfg: &RunCfg, build: &str) -> ProgRecord {
    let t0 = Instant::now();
    if let Ok(mut g) = CURRENT.try_lock() {
        *g = p.name.clone();
    }
    let mut rec = ProgRecord {
        index,
        name: p.name.clone(),
        build: build.into(),
        ..Default::default()
    };
    let m = Arc::new(model::explore(p, cfg.model_cap));
    rec.model_states = m.states;
    rec.model_transitions = m.transitions;
    rec.model_outcomes = m.outcomes.len() as u64;
    if m.capped {
        rec.cap_hit = Some("model state cap".into());
        return rec;
    }
    STATS.with(|s| *s.borrow_mut() = Stats::default());
    LAST_PANIC.with(|l| l.borrow_mut().clear());
    let _ = ctl::take_totals();
    ctl::set_tracking(cfg.track);
    ctl::set_nowait_checks(cfg.nowait);
    let r = match p.class {
        Class::Z => run_typed::<Z>(p, cfg, Some(m.clone())),
        Class::ZA => run_typed::<ZA>(p, cfg, Some(m.clone())),
        Class::B1 => run_typed::<B1>(p, cfg, Some(m.clone())),
        Class::B3 => run_typed::<B3>(p, cfg, Some(m.clone())),
        Class::P => run_typed::<P>(p, cfg, Some(m.clone())),
        Class::L => run_typed::<L>(p, cfg, Some(m.clone())),
        Class::LP => run_typed::<LP>(p, cfg, Some(m.clone())),
        Class::D4 => run_typed::<D4>(p, cfg, Some(m.clone())),
        Class::DP => run_typed::<DP>(p, cfg, Some(m.clone())),
        Class::DL => run_typed::<DL>(p, cfg, Some(m.clone())),
        Class::DZ => run_typed::<DZ>(p, cfg, Some(m.clone())),
    };
    // make sure a broken execution does not leak state into the next run
    ctl::end_execution();
    let st = STATS.with(|s| std::mem::take(&mut *s.borrow_mut()));
    let tot = ctl::take_totals();
    rec.executions = st.executions;
    rec.impl_outcomes = st.outcomes.len() as u64;
    rec.distinct_histories = st.hist_shapes.len() as u64;
    rec.sched_points = tot.atomic_ops + tot.yields + tot.parks;
    rec.parks = tot.parks;
    rec.spurious_parks = tot.spurious_parks;
    rec.spin_cuts = tot.spin_cuts;
    rec.publishes = tot.publishes;
    rec.peer_entries = tot.peer_entries;
    rec.tracked = tot.tracked_reads + tot.tracked_writes;
    rec.nowait_regions = tot.nowait_regions;
    rec.nowait_max_ops = tot.nowait_max_ops;
    rec.paths = st.paths;
    rec.sample = st.sample;
    match r {
        Ok(()) => rec.completed = true,
        Err(msg) => {
            if msg.contains("KMC-CAP") {
                rec.cap_hit = st.cap.or(Some("cap".into()));
            } else {
                let v = match st.violation {
                    Some(v) => v,
                    None => Violation {
                        kind: classify(&msg),
                        message: msg.clone(),
                        execution: st.executions + 1,
                        history: Some(hist::take()),
                    },
                };
                if cfg.kinds.contains(&v.kind) {
                    rec.violation = Some(v);
                } else {
                    rec.foreign = Some(format!("{:?}: {}", v.kind, v.message));
                }
            }
        }
    }
    rec.wall_ms = t0.elapsed().as_millis() as u64;
    rec
}

/// Aggregated outcome coverage per check, printed by the worker at the end.
#[derive(Default, Serialize, Deserialize)]
pub struct Summary {
    pub programs: u64,
    pub by_kind: BTreeMap<String, u64>,
}
