//! Interpreter: executes a `Program` against the real (hooked) kanal inside a
//! loom execution and records the history.

use crate::hist::{self, harness_drop, stamp, Call, Res, E};
use crate::payload::Payload;
use crate::prog::*;
use kanal::{
    AsyncReceiver, AsyncSender, ReceiveError, ReceiveErrorTimeout, ReceiveFuture, ReceiveStream, Receiver,
    SendError, SendErrorTimeout, SendFuture, Sender,
};
use kanal_verif_rt::ctl::{self, NoWait};
use std::future::Future;
use std::panic::{catch_unwind, resume_unwind, AssertUnwindSafe};
use std::pin::Pin;
use std::sync::Arc;
use std::task::{Context, Poll, Waker};
use std::time::Duration;

pub enum SH<T> {
    Sync(Sender<T>),
    Async(AsyncSender<T>),
}
pub enum RH<T> {
    Sync(Receiver<T>),
    Async(AsyncReceiver<T>),
}

impl<T> SH<T> {
    fn flavour(&self) -> Flavour {
        match self {
            SH::Sync(_) => Flavour::Sync,
            SH::Async(_) => Flavour::Async,
        }
    }
    fn sync(&self) -> &Sender<T> {
        match self {
            SH::Sync(s) => s,
            SH::Async(s) => s.as_sync(),
        }
    }
    fn asyn(&self) -> &AsyncSender<T> {
        match self {
            SH::Sync(s) => s.as_async(),
            SH::Async(s) => s,
        }
    }
    fn derive(&self, f: Flavour, via: Conv) -> SH<T> {
        match (self, f) {
            (SH::Sync(s), Flavour::Sync) => SH::Sync(s.clone()),
            (SH::Async(s), Flavour::Async) => SH::Async(s.clone()),
            (SH::Sync(s), Flavour::Async) => match via {
                Conv::ToOther => SH::Async(s.clone().to_async()),
                _ => SH::Async(s.clone_async()),
            },
            (SH::Async(s), Flavour::Sync) => match via {
                Conv::ToOther => SH::Sync(s.clone().to_sync()),
                _ => SH::Sync(s.clone_sync()),
            },
        }
    }
    fn convert(self) -> SH<T> {
        match self {
            SH::Sync(s) => SH::Async(s.to_async()),
            SH::Async(s) => SH::Sync(s.to_sync()),
        }
    }
}

impl<T> RH<T> {
    fn flavour(&self) -> Flavour {
        match self {
            RH::Sync(_) => Flavour::Sync,
            RH::Async(_) => Flavour::Async,
        }
    }
    fn sync(&self) -> &Receiver<T> {
        match self {
            RH::Sync(s) => s,
            RH::Async(s) => s.as_sync(),
        }
    }
    fn asyn(&self) -> &AsyncReceiver<T> {
        match self {
            RH::Sync(s) => s.as_async(),
            RH::Async(s) => s,
        }
    }
    fn derive(&self, f: Flavour, via: Conv) -> RH<T> {
        match (self, f) {
            (RH::Sync(s), Flavour::Sync) => RH::Sync(s.clone()),
            (RH::Async(s), Flavour::Async) => RH::Async(s.clone()),
            (RH::Sync(s), Flavour::Async) => match via {
                Conv::ToOther => RH::Async(s.clone().to_async()),
                _ => RH::Async(s.clone_async()),
            },
            (RH::Async(s), Flavour::Sync) => match via {
                Conv::ToOther => RH::Sync(s.clone().to_sync()),
                _ => RH::Sync(s.clone_sync()),
            },
        }
    }
    fn convert(self) -> RH<T> {
        match self {
            RH::Sync(s) => RH::Async(s.to_async()),
            RH::Async(s) => RH::Sync(s.to_sync()),
        }
    }
}

/// One macro instead of a trait over the four handle types: the observers and
/// `close` exist, with identical signatures, on all of them.
macro_rules! on_handle {
    ($ctx:expr, $side:expr, |$h:ident| $e:expr) => {
        match $side {
            Side::S => match &**$ctx.hs.last().expect("no sender handle") {
                SH::Sync($h) => $e,
                SH::Async($h) => $e,
            },
            Side::R => match &**$ctx.hr.last().expect("no receiver handle") {
                RH::Sync($h) => $e,
                RH::Async($h) => $e,
            },
        }
    };
}

enum FutI<T: 'static> {
    Empty,
    Send(Pin<Box<SendFuture<'static, T>>>),
    Recv(Pin<Box<ReceiveFuture<'static, T>>>),
    Stream(Pin<Box<ReceiveStream<'static, T>>>),
}

pub struct Ctx<T: 'static> {
    pub t: usize,
    pub hs: Vec<Box<SH<T>>>,
    pub hr: Vec<Box<RH<T>>>,
    futs: [FutI<T>; 4],
    fut_tags: [Option<Tag>; 4],
    wakers: [HWaker; 2],
    flags: Arc<Flags>,
}

/// Cross-thread coordination of the harness itself.  Everything here waits
/// with `park()` in a re-checking loop: loom's own blocking objects (Mutex,
/// Condvar, Notify/join) do not tolerate a stray `unpark()` aimed at a thread
/// blocked in them, and late unparks (a peer's wake-up arriving after the woken
/// operation has already returned) are normal for the code under test.  The
/// conditions are plain cells (loom runs one thread at a time, so they are
/// exact); the park/unpark pairs are what loom sees.
pub struct Flags {
    flag: std::cell::Cell<u32>,
    /// start barrier (only for programs that use Set/Wait): opened by thread 0
    /// once every thread handle is registered
    start: std::cell::Cell<bool>,
    done: std::cell::Cell<u32>,
    threads: std::sync::Mutex<Vec<loom::thread::Thread>>,
    /// C17: kanal's lock around a loom-tracked cell, and an overlap monitor
    #[cfg(not(feature = "seam"))]
    lock: kanal::verif::SpinMutex<loom::cell::UnsafeCell<u64>>,
    inside: std::cell::Cell<u32>,
    pub acquired: std::cell::Cell<u64>,
}
// loom runs one thread at a time; the plain cells are only touched between
// scheduling points
unsafe impl Sync for Flags {}
unsafe impl Send for Flags {}

impl Flags {
    pub fn new() -> Flags {
        Flags {
            flag: std::cell::Cell::new(0),
            start: std::cell::Cell::new(false),
            done: std::cell::Cell::new(0),
            threads: std::sync::Mutex::new(vec![loom::thread::current()]),
            #[cfg(not(feature = "seam"))]
            lock: kanal::verif::SpinMutex::new(loom::cell::UnsafeCell::new(0)),
            inside: std::cell::Cell::new(0),
            acquired: std::cell::Cell::new(0),
        }
    }
    fn unpark_all(&self) {
        let me = loom::thread::current().id();
        let ts: Vec<_> = self.threads.lock().unwrap().clone();
        for t in ts {
            if t.id() != me {
                t.unpark();
            }
        }
    }
    /// thread 0, after spawning: register every handle, then open the barrier
    pub fn open(&self, handles: Vec<loom::thread::Thread>) {
        *self.threads.lock().unwrap() = handles;
        self.start.set(true);
        self.unpark_all();
    }
    /// first thing a spawned thread does (programs with Set/Wait only)
    pub fn wait_start(&self) {
        while !self.start.get() {
            loom::thread::park();
        }
    }
    /// last thing a spawned thread does: tell thread 0 (registered first)
    pub fn finished(&self) {
        self.done.set(self.done.get() + 1);
        let main = self.threads.lock().unwrap()[0].clone();
        main.unpark();
    }
    pub fn wait_finished(&self, n: u32) {
        while self.done.get() < n {
            loom::thread::park();
        }
    }
    fn set(&self, i: usize) {
        self.flag.set(self.flag.get() | (1 << i));
        self.unpark_all();
    }
    fn wait(&self, i: usize) {
        while self.flag.get() & (1 << i) == 0 {
            loom::thread::park();
        }
    }
    /// the lock word is created lazily: the creating thread touches it first
    pub fn touch_lock(&self) {
        #[cfg(not(feature = "seam"))]
        drop(self.lock.lock());
    }
    /// value of the protected counter (after all threads are joined)
    pub fn protected_value(&self) -> u64 {
        #[cfg(not(feature = "seam"))]
        {
            let g = self.lock.lock();
            return g.with(|p| unsafe { *p });
        }
        #[cfg(feature = "seam")]
        0
    }
    #[cfg(not(feature = "seam"))]
    fn critical_section(&self, g: &loom::cell::UnsafeCell<u64>) {
        if self.inside.get() != 0 {
            panic!("KANAL-VERIF-VIOLATION overlap: two threads are inside the critical section");
        }
        self.inside.set(1);
        // loom checks that this write happens-after every earlier access
        g.with_mut(|p| unsafe { *p += 1 });
        loom::thread::yield_now();
        g.with(|p| unsafe { std::ptr::read_volatile(p) });
        if self.inside.get() != 1 {
            panic!("KANAL-VERIF-VIOLATION overlap: another thread entered the critical section");
        }
        self.inside.set(0);
        self.acquired.set(self.acquired.get() + 1);
    }
}

// ---- harness wakers -------------------------------------------------------
//
// Hand-made RawWakers with book-keeping: every waker identity has one record
// (clones share its address, so `will_wake` works as for Arc-based wakers) that
// counts the handles the channel holds (clones made while kanal code runs,
// minus the ones it dropped or consumed).  Waking through a handle the channel
// no longer holds — e.g. `wake_by_ref` on the waker stored in a future that has
// already been dropped — is an access to freed memory that neither loom nor
// the tracker can see otherwise.

enum WakeKind {
    /// counting waker W0 / W1
    Count(usize),
    /// executor waker: flag + unpark
    Exec {
        flag: loom::sync::atomic::AtomicBool,
        thread: loom::thread::Thread,
    },
}

pub struct WakerRec {
    kind: WakeKind,
    kanal_handles: std::cell::Cell<i64>,
    /// loom-visible probe (tracking runs only): dropping a handle writes it,
    /// waking reads it, so loom's partial-order reduction explores both orders
    /// of "the owner drops the stored waker" and "the peer wakes through it"
    probe: Option<loom::sync::atomic::AtomicUsize>,
}

thread_local! {
    static WAKER_ARENA: std::cell::RefCell<Vec<Box<WakerRec>>> = const { std::cell::RefCell::new(Vec::new()) };
    /// set while the harness itself clones / drops / creates a waker handle
    static HARNESS_CTX: std::cell::Cell<bool> = const { std::cell::Cell::new(false) };
}

/// records of the previous execution are released here
pub fn reset_wakers() {
    WAKER_ARENA.with(|a| a.borrow_mut().clear());
    HARNESS_CTX.with(|c| c.set(false));
}

fn harness<R>(f: impl FnOnce() -> R) -> R {
    let old = HARNESS_CTX.with(|c| c.replace(true));
    let r = f();
    HARNESS_CTX.with(|c| c.set(old));
    r
}

fn in_harness() -> bool {
    HARNESS_CTX.with(|c| c.get())
}

unsafe fn rec<'a>(p: *const ()) -> &'a WakerRec {
    &*(p as *const WakerRec)
}

fn fire(r: &WakerRec) {
    match &r.kind {
        WakeKind::Count(i) => hist::HIST.with(|h| h.borrow_mut().wakes[*i] += 1),
        WakeKind::Exec { flag, thread } => {
            flag.store(true, std::sync::atomic::Ordering::Release);
            thread.unpark();
        }
    }
}

fn check_live(r: &WakerRec, how: &str) {
    if !in_harness() && r.kanal_handles.get() <= 0 && kanal_verif_rt::ctl::tracking() {
        kanal_verif_rt::ctl::violation(
            "use-after-return",
            &format!("{how} through a waker handle the channel no longer holds (the future that stored it has been dropped)"),
        );
    }
}

unsafe fn vt_clone(p: *const ()) -> std::task::RawWaker {
    if !in_harness() {
        let r = rec(p);
        r.kanal_handles.set(r.kanal_handles.get() + 1);
    }
    std::task::RawWaker::new(p, &VTABLE)
}
fn probe_read(r: &WakerRec) {
    if !in_harness() {
        if let Some(p) = &r.probe {
            p.load(std::sync::atomic::Ordering::Relaxed);
        }
    }
}
unsafe fn vt_wake(p: *const ()) {
    let r = rec(p);
    probe_read(r);
    check_live(r, "wake()");
    fire(r);
    if !in_harness() {
        r.kanal_handles.set(r.kanal_handles.get() - 1);
    }
}
unsafe fn vt_wake_by_ref(p: *const ()) {
    let r = rec(p);
    probe_read(r);
    check_live(r, "wake_by_ref()");
    fire(r);
}
unsafe fn vt_drop(p: *const ()) {
    if !in_harness() {
        let r = rec(p);
        if let Some(pr) = &r.probe {
            pr.fetch_add(1, std::sync::atomic::Ordering::Relaxed);
        }
        r.kanal_handles.set(r.kanal_handles.get() - 1);
    }
}
static VTABLE: std::task::RawWakerVTable = std::task::RawWakerVTable::new(vt_clone, vt_wake, vt_wake_by_ref, vt_drop);

/// A waker handle owned by the harness (its clone / drop do not count as the
/// channel's).
pub struct HWaker {
    w: Option<Waker>,
    rec: *const WakerRec,
}

impl HWaker {
    fn new(kind: WakeKind) -> HWaker {
        let b = Box::new(WakerRec {
            kind,
            kanal_handles: std::cell::Cell::new(0),
            probe: kanal_verif_rt::ctl::tracking().then(|| loom::sync::atomic::AtomicUsize::new(0)),
        });
        let p = &*b as *const WakerRec;
        WAKER_ARENA.with(|a| a.borrow_mut().push(b));
        let w = harness(|| unsafe { Waker::from_raw(std::task::RawWaker::new(p as *const (), &VTABLE)) });
        HWaker { w: Some(w), rec: p }
    }
    fn counting(i: usize) -> HWaker {
        HWaker::new(WakeKind::Count(i))
    }
    fn executor() -> HWaker {
        HWaker::new(WakeKind::Exec {
            flag: loom::sync::atomic::AtomicBool::new(false),
            thread: loom::thread::current(),
        })
    }
    fn waker(&self) -> &Waker {
        self.w.as_ref().unwrap()
    }
    fn flag(&self) -> &loom::sync::atomic::AtomicBool {
        match unsafe { &(*self.rec).kind } {
            WakeKind::Exec { flag, .. } => flag,
            _ => unreachable!(),
        }
    }
}

impl Drop for HWaker {
    fn drop(&mut self) {
        let w = self.w.take();
        harness(|| drop(w));
    }
}

pub fn block_on<F: Future>(mut fut: Pin<&mut F>, repoll: bool) -> F::Output {
    use std::sync::atomic::Ordering::{Acquire, Relaxed};
    let mut ew = HWaker::executor();
    let mut switched = !repoll;
    loop {
        // stale wake-ups of earlier registrations are discarded here; a wake
        // for the registration the coming poll makes lands after this store
        ew.flag().store(false, Relaxed);
        let mut cx = Context::from_waker(ew.waker());
        if let Poll::Ready(v) = fut.as_mut().poll(&mut cx) {
            return v;
        }
        if !switched {
            // spurious poll with a *different* waker right away; from now on
            // only the new one counts
            switched = true;
            ew = HWaker::executor();
            continue;
        }
        while !ew.flag().load(Acquire) {
            loom::thread::park();
        }
    }
}

fn se(e: SendError) -> Res {
    Res::Err(match e {
        SendError::Closed => E::Closed,
        SendError::ReceiveClosed => E::ReceiveClosed,
    })
}
fn set(e: SendErrorTimeout) -> Res {
    Res::Err(match e {
        SendErrorTimeout::Closed => E::Closed,
        SendErrorTimeout::ReceiveClosed => E::ReceiveClosed,
        SendErrorTimeout::Timeout => E::Timeout,
    })
}
fn re(e: ReceiveError) -> Res {
    Res::Err(match e {
        ReceiveError::Closed => E::Closed,
        ReceiveError::SendClosed => E::SendClosed,
    })
}
fn ret(e: ReceiveErrorTimeout) -> Res {
    Res::Err(match e {
        ReceiveErrorTimeout::Closed => E::Closed,
        ReceiveErrorTimeout::SendClosed => E::SendClosed,
        ReceiveErrorTimeout::Timeout => E::Timeout,
    })
}

struct Out {
    res: Res,
    opt_some: Option<bool>,
    intact: bool,
    prefix_ok: bool,
}
impl Out {
    fn r(res: Res) -> Out {
        Out {
            res,
            opt_some: None,
            intact: true,
            prefix_ok: true,
        }
    }
}

fn got<T: Payload>(v: T) -> Out {
    let mut o = Out::r(Res::Val(v.tag()));
    o.intact = v.intact();
    harness_drop(v);
    o
}

unsafe fn forever<'a, X>(x: &'a X) -> &'static X {
    std::mem::transmute::<&'a X, &'static X>(x)
}

pub const SENTINELS: [Tag; 2] = [200, 201];

impl<T: Payload> Ctx<T> {
    pub fn new(t: usize, hs: Option<SH<T>>, hr: Option<RH<T>>, flags: Arc<Flags>) -> Ctx<T> {
        Ctx {
            t,
            hs: hs.into_iter().map(Box::new).collect(),
            hr: hr.into_iter().map(Box::new).collect(),
            futs: [FutI::Empty, FutI::Empty, FutI::Empty, FutI::Empty],
            fut_tags: [None; 4],
            wakers: [HWaker::counting(0), HWaker::counting(1)],
            flags,
        }
    }

    fn s(&self) -> &SH<T> {
        self.hs.last().expect("send-like op without a sender handle")
    }
    fn r(&self) -> &RH<T> {
        self.hr.last().expect("receive-like op without a receiver handle")
    }

    pub fn run(&mut self, p: &Program) {
        let n = p.threads[self.t].ops.len();
        self.run_range(p, 0, n);
        self.finish();
    }

    /// operations [from, to) of this thread
    pub fn run_range(&mut self, p: &Program, from: usize, to: usize) {
        ctl::register_thread(self.t);
        let ops = p.threads[self.t].ops.clone();
        for (idx, op) in ops.iter().enumerate().skip(from).take(to - from) {
            let tag = match op {
                _ if op.is_send_like() => Some(p.tag(self.t, idx)),
                Op::Poll(slot, _) | Op::FDrop(slot) => self.fut_tags[*slot as usize],
                _ => None,
            };
            if let Op::FSend(slot) = op {
                self.fut_tags[*slot as usize] = tag;
            }
            if let Op::FRecv(slot) | Op::FStream(slot) = op {
                self.fut_tags[*slot as usize] = None;
            }
            let inv = stamp();
            let clk_inv = kanal_verif_rt::clock::peek();
            let out = self.exec(*op, tag.unwrap_or(0));
            let clk_ret = kanal_verif_rt::clock::peek();
            let retstamp = stamp();
            let registered = ctl::publishes()
                .iter()
                .find(|(th, s)| *th == self.t && *s > inv && *s < retstamp)
                .map(|x| x.1);
            if let Op::FDrop(slot) = op {
                self.fut_tags[*slot as usize] = None;
            }
            hist::push_call(Call {
                thread: self.t,
                idx,
                op: *op,
                tag,
                inv,
                ret: retstamp,
                res: out.res,
                opt_some: out.opt_some,
                clk_inv,
                clk_ret,
                registered,
                intact: out.intact,
                prefix_ok: out.prefix_ok,
            });
        }
    }

    /// End of the thread: futures (slot order), sender handles (top first),
    /// receiver handles (top first) — the order the model uses.
    pub fn finish(&mut self) {
        let begin = stamp();
        self.finish_inner();
        hist::push_thread_end(self.t, begin, stamp());
    }

    fn finish_inner(&mut self) {
        for i in 0..4 {
            let f = std::mem::replace(&mut self.futs[i], FutI::Empty);
            drop(f);
        }
        while let Some(h) = self.hs.pop() {
            let inv = stamp();
            drop(h);
            hist::push_hdrop(self.t, Side::S, inv, stamp());
        }
        while let Some(h) = self.hr.pop() {
            let inv = stamp();
            drop(h);
            hist::push_hdrop(self.t, Side::R, inv, stamp());
        }
    }

    fn exec(&mut self, op: Op, tag: Tag) -> Out {
        // 255 stands for Duration::MAX (deadline computation overflows)
        let d = |k: u8| if k == 255 { Duration::MAX } else { Duration::from_nanos(k as u64) };
        if let Op::SendT(255) | Op::SendOT(255) | Op::RecvT(255) = op {
            return self.exec_overflowing(op, tag);
        }
        self.exec_inner(op, tag, &d)
    }

    /// timed call with an overflowing duration: kanal panics (unwrap of the
    /// deadline); the panic is caught here like a thread-confined panic would be
    fn exec_overflowing(&mut self, op: Op, tag: Tag) -> Out {
        let mut o: Option<T> = None;
        let r = catch_unwind(AssertUnwindSafe(|| match op {
            Op::SendT(_) => {
                let _ = self.s().sync().send_timeout(T::make(tag), Duration::MAX);
            }
            Op::SendOT(_) => {
                o = Some(T::make(tag));
                let _ = self.s().sync().send_option_timeout(&mut o, Duration::MAX);
            }
            _ => {
                if let Ok(v) = self.r().sync().recv_timeout(Duration::MAX) {
                    harness_drop(v);
                }
            }
        }));
        let mut out = match r {
            Err(_) => {
                crate::runner::clear_last_panic();
                Out::r(Res::Panicked)
            }
            Ok(()) => Out::r(Res::Unit),
        };
        if let Op::SendOT(_) = op {
            out.opt_some = Some(o.is_some());
        }
        harness_drop(o);
        out
    }

    fn exec_inner(&mut self, op: Op, tag: Tag, d: &dyn Fn(u8) -> Duration) -> Out {
        match op {
            Op::Send | Op::SendRepoll => {
                let v = T::make(tag);
                match (self.s().flavour(), op) {
                    (Flavour::Sync, Op::Send) => Out::r(match self.s().sync().send(v) {
                        Ok(()) => Res::Ok,
                        Err(e) => se(e),
                    }),
                    _ => {
                        let mut f = Box::pin(self.s().asyn().send(v));
                        let r = block_on(f.as_mut(), op == Op::SendRepoll);
                        Out::r(match r {
                            Ok(()) => Res::Ok,
                            Err(e) => se(e),
                        })
                    }
                }
            }
            Op::SendT(k) => Out::r(match self.s().sync().send_timeout(T::make(tag), d(k)) {
                Ok(()) => Res::Ok,
                Err(e) => set(e),
            }),
            Op::SendOT(k) => {
                let mut o = Some(T::make(tag));
                let r = self.s().sync().send_option_timeout(&mut o, d(k));
                let mut out = Out::r(match r {
                    Ok(()) => Res::Ok,
                    Err(e) => set(e),
                });
                out.opt_some = Some(o.is_some());
                harness_drop(o);
                out
            }
            Op::TrySend | Op::TrySendRt => {
                let v = T::make(tag);
                let rt = op == Op::TrySendRt;
                let kind = if rt { NoWait::Lock } else { NoWait::Peer };
                let r = match self.s() {
                    SH::Sync(s) => ctl::nowait(kind, || if rt { s.try_send_realtime(v) } else { s.try_send(v) }),
                    SH::Async(s) => ctl::nowait(kind, || if rt { s.try_send_realtime(v) } else { s.try_send(v) }),
                };
                Out::r(match r {
                    Ok(true) => Res::Ok,
                    Ok(false) => Res::NotDone,
                    Err(e) => se(e),
                })
            }
            Op::TrySendO | Op::TrySendORt => {
                let mut o = Some(T::make(tag));
                let rt = op == Op::TrySendORt;
                let kind = if rt { NoWait::Lock } else { NoWait::Peer };
                let r = match self.s() {
                    SH::Sync(s) => ctl::nowait(kind, || {
                        if rt {
                            s.try_send_option_realtime(&mut o)
                        } else {
                            s.try_send_option(&mut o)
                        }
                    }),
                    SH::Async(s) => ctl::nowait(kind, || {
                        if rt {
                            s.try_send_option_realtime(&mut o)
                        } else {
                            s.try_send_option(&mut o)
                        }
                    }),
                };
                let mut out = Out::r(match r {
                    Ok(true) => Res::Ok,
                    Ok(false) => Res::NotDone,
                    Err(e) => se(e),
                });
                out.opt_some = Some(o.is_some());
                harness_drop(o);
                out
            }
            Op::SendNone(k) => {
                let mut o: Option<T> = None;
                let r = catch_unwind(AssertUnwindSafe(|| {
                    if k >= 2 {
                        return self.s().sync().send_option_timeout(&mut o, d(1)).is_ok();
                    }
                    match self.s() {
                        SH::Sync(s) => {
                            if k == 0 {
                                s.try_send_option(&mut o).is_ok()
                            } else {
                                s.try_send_option_realtime(&mut o).is_ok()
                            }
                        }
                        SH::Async(s) => {
                            if k == 0 {
                                s.try_send_option(&mut o).is_ok()
                            } else {
                                s.try_send_option_realtime(&mut o).is_ok()
                            }
                        }
                    }
                }));
                Out::r(match r {
                    Err(_) => Res::Panicked,
                    Ok(true) => Res::Ok,
                    Ok(false) => Res::NotDone,
                })
            }
            Op::Recv | Op::RecvRepoll => match (self.r().flavour(), op) {
                (Flavour::Sync, Op::Recv) => match self.r().sync().recv() {
                    Ok(v) => got(v),
                    Err(e) => Out::r(re(e)),
                },
                _ => {
                    let mut f = Box::pin(self.r().asyn().recv());
                    match block_on(f.as_mut(), op == Op::RecvRepoll) {
                        Ok(v) => got(v),
                        Err(e) => Out::r(re(e)),
                    }
                }
            },
            Op::RecvT(k) => match self.r().sync().recv_timeout(d(k)) {
                Ok(v) => got(v),
                Err(e) => Out::r(ret(e)),
            },
            Op::Next => {
                // Iterator::next needs &mut Receiver
                let h = self.hr.last_mut().expect("no receiver");
                match &mut **h {
                    RH::Sync(r) => match r.next() {
                        Some(v) => got(v),
                        None => Out::r(Res::NotDone),
                    },
                    RH::Async(_) => panic!("Next on an async receiver"),
                }
            }
            Op::TryRecv | Op::TryRecvRt => {
                let rt = op == Op::TryRecvRt;
                let kind = if rt { NoWait::Lock } else { NoWait::Peer };
                let r = match self.r() {
                    RH::Sync(r) => ctl::nowait(kind, || if rt { r.try_recv_realtime() } else { r.try_recv() }),
                    RH::Async(r) => ctl::nowait(kind, || if rt { r.try_recv_realtime() } else { r.try_recv() }),
                };
                match r {
                    Ok(Some(v)) => got(v),
                    Ok(None) => Out::r(Res::NotDone),
                    Err(e) => Out::r(re(e)),
                }
            }
            Op::Drain(vs) => {
                let mut vec: Vec<T> = match vs {
                    VecState::Empty => Vec::new(),
                    VecState::Spare => Vec::with_capacity(8),
                    VecState::Tight => Vec::with_capacity(1),
                    VecState::Prefilled => {
                        let mut v = Vec::with_capacity(2);
                        v.push(T::make(SENTINELS[0]));
                        v.push(T::make(SENTINELS[1]));
                        v
                    }
                };
                let pre = vec.len();
                let r = match self.r() {
                    RH::Sync(r) => ctl::nowait(NoWait::Peer, || r.drain_into(&mut vec)),
                    RH::Async(r) => ctl::nowait(NoWait::Peer, || r.drain_into(&mut vec)),
                };
                let mut prefix_ok = vec.len() >= pre && vec.len() <= vec.capacity();
                if prefix_ok && pre == 2 {
                    prefix_ok = vec[0].tag() == T::tag_of(SENTINELS[0])
                        && vec[1].tag() == T::tag_of(SENTINELS[1])
                        && vec[0].intact()
                        && vec[1].intact();
                }
                let appended: Vec<Tag> = vec.iter().skip(pre).map(|v| v.tag()).collect();
                let intact = vec.iter().all(|v| v.intact());
                harness_drop(vec);
                let mut out = Out::r(match r {
                    Ok(n) => Res::Drained(n as u32, appended),
                    Err(e) => {
                        if !appended.is_empty() {
                            prefix_ok = false;
                        }
                        re(e)
                    }
                });
                out.intact = intact;
                out.prefix_ok = prefix_ok;
                out
            }
            Op::FSend(slot) => {
                let h = unsafe { forever(self.s().asyn()) };
                self.futs[slot as usize] = FutI::Send(Box::pin(h.send(T::make(tag))));
                Out::r(Res::Unit)
            }
            Op::FRecv(slot) => {
                let h = unsafe { forever(self.r().asyn()) };
                self.futs[slot as usize] = FutI::Recv(Box::pin(h.recv()));
                Out::r(Res::Unit)
            }
            Op::FStream(slot) => {
                let h = unsafe { forever(self.r().asyn()) };
                self.futs[slot as usize] = FutI::Stream(Box::pin(h.stream()));
                Out::r(Res::Unit)
            }
            Op::FDrop(slot) => {
                let f = std::mem::replace(&mut self.futs[slot as usize], FutI::Empty);
                drop(f);
                Out::r(Res::Unit)
            }
            Op::Poll(slot, w) => {
                let mut cx = Context::from_waker(self.wakers[w as usize].waker());
                let fut = &mut self.futs[slot as usize];
                let r = catch_unwind(AssertUnwindSafe(|| match fut {
                    FutI::Empty => panic!("Poll on an empty slot"),
                    FutI::Send(f) => match f.as_mut().poll(&mut cx) {
                        Poll::Pending => Out::r(Res::Pending),
                        Poll::Ready(Ok(())) => Out::r(Res::Ok),
                        Poll::Ready(Err(e)) => Out::r(se(e)),
                    },
                    FutI::Recv(f) => match f.as_mut().poll(&mut cx) {
                        Poll::Pending => Out::r(Res::Pending),
                        Poll::Ready(Ok(v)) => got(v),
                        Poll::Ready(Err(e)) => Out::r(re(e)),
                    },
                    FutI::Stream(f) => match futures_core::Stream::poll_next(f.as_mut(), &mut cx) {
                        Poll::Pending => Out::r(Res::Pending),
                        Poll::Ready(Some(v)) => got(v),
                        Poll::Ready(None) => Out::r(Res::End),
                    },
                }));
                match r {
                    Ok(o) => o,
                    Err(p) => {
                        let m = p
                            .downcast_ref::<&str>()
                            .map(|s| s.to_string())
                            .or_else(|| p.downcast_ref::<String>().cloned())
                            .unwrap_or_default();
                        if m.contains("polled after result") {
                            // documented panic, caught here: it is not the
                            // failure of this execution (the panic hook
                            // ignores it)
                            Out::r(Res::Panicked)
                        } else {
                            resume_unwind(p)
                        }
                    }
                }
            }
            Op::StreamNext(slot) => {
                let repoll = slot & crate::prog::REPOLL != 0;
                let fut = &mut self.futs[(slot & !crate::prog::REPOLL) as usize];
                match fut {
                    FutI::Stream(f) => {
                        let mut nx = StreamNextFut(f.as_mut());
                        match block_on(Pin::new(&mut nx), repoll) {
                            Some(v) => got(v),
                            None => Out::r(Res::End),
                        }
                    }
                    _ => panic!("StreamNext on a slot without stream"),
                }
            }
            Op::Close(side) => Out::r(match on_handle!(self, side, |h| h.close()) {
                Ok(()) => Res::Ok,
                Err(_) => Res::Err(E::AlreadyClosed),
            }),
            Op::NewHandle(side, conv) => {
                match side {
                    Side::S => {
                        let top = self.hs.pop().expect("no sender");
                        let fl = top.flavour();
                        let other = if fl == Flavour::Sync { Flavour::Async } else { Flavour::Sync };
                        match conv {
                            Conv::Clone => {
                                let n = top.derive(fl, Conv::Clone);
                                self.hs.push(top);
                                self.hs.push(Box::new(n));
                            }
                            Conv::CloneOther => {
                                let n = top.derive(other, Conv::CloneOther);
                                self.hs.push(top);
                                self.hs.push(Box::new(n));
                            }
                            Conv::ToOther => self.hs.push(Box::new((*top).convert())),
                        }
                    }
                    Side::R => {
                        let top = self.hr.pop().expect("no receiver");
                        let fl = top.flavour();
                        let other = if fl == Flavour::Sync { Flavour::Async } else { Flavour::Sync };
                        match conv {
                            Conv::Clone => {
                                let n = top.derive(fl, Conv::Clone);
                                self.hr.push(top);
                                self.hr.push(Box::new(n));
                            }
                            Conv::CloneOther => {
                                let n = top.derive(other, Conv::CloneOther);
                                self.hr.push(top);
                                self.hr.push(Box::new(n));
                            }
                            Conv::ToOther => self.hr.push(Box::new((*top).convert())),
                        }
                    }
                }
                Out::r(Res::Ok)
            }
            Op::MoveStream(slot) => {
                let f = std::mem::replace(&mut self.futs[slot as usize], FutI::Empty);
                match f {
                    FutI::Stream(b) => {
                        // ReceiveStream is Unpin: safe code may move it between polls
                        let s: ReceiveStream<'static, T> = *Pin::into_inner(b);
                        self.futs[slot as usize] = FutI::Stream(Box::pin(s));
                    }
                    _ => panic!("MoveStream on a slot without stream"),
                }
                Out::r(Res::Unit)
            }
            Op::StreamIsTerm(slot) => match &self.futs[slot as usize] {
                FutI::Stream(f) => Out::r(Res::Bool(futures_core::FusedStream::is_terminated(&**f))),
                _ => panic!("StreamIsTerm on a slot without stream"),
            },
            Op::CloneFrom(side) => {
                // a second channel of the same kind; its handle of `side` is
                // overwritten with a clone of the current one
                let n = match side {
                    Side::S => {
                        let top = self.hs.last().expect("no sender");
                        match &**top {
                            SH::Sync(s) => {
                                let (mut s2, r2) = kanal::bounded::<T>(1);
                                s2.clone_from(s);
                                let n = r2.sender_count();
                                self.hs.push(Box::new(SH::Sync(s2)));
                                drop(r2);
                                n
                            }
                            SH::Async(s) => {
                                let (mut s2, r2) = kanal::bounded_async::<T>(1);
                                s2.clone_from(s);
                                let n = r2.sender_count();
                                self.hs.push(Box::new(SH::Async(s2)));
                                drop(r2);
                                n
                            }
                        }
                    }
                    Side::R => {
                        let top = self.hr.last().expect("no receiver");
                        match &**top {
                            RH::Sync(r) => {
                                let (s2, mut r2) = kanal::bounded::<T>(1);
                                r2.clone_from(r);
                                let n = s2.receiver_count();
                                self.hr.push(Box::new(RH::Sync(r2)));
                                drop(s2);
                                n
                            }
                            RH::Async(r) => {
                                let (s2, mut r2) = kanal::bounded_async::<T>(1);
                                r2.clone_from(r);
                                let n = s2.receiver_count();
                                self.hr.push(Box::new(RH::Async(r2)));
                                drop(s2);
                                n
                            }
                        }
                    }
                };
                Out::r(Res::Num(n as u64))
            }
            Op::DropHandleUnwinding(side) => {
                let inv = stamp();
                match side {
                    Side::S => {
                        let h = self.hs.pop().expect("no sender");
                        let _ = catch_unwind(AssertUnwindSafe(move || {
                            let _h = h;
                            panic!("KMC-EXPECTED-UNWIND");
                        }));
                    }
                    Side::R => {
                        let h = self.hr.pop().expect("no receiver");
                        let _ = catch_unwind(AssertUnwindSafe(move || {
                            let _h = h;
                            panic!("KMC-EXPECTED-UNWIND");
                        }));
                    }
                }
                crate::runner::clear_last_panic();
                hist::push_hdrop(self.t, side, inv, stamp());
                Out::r(Res::Ok)
            }
            Op::DropHandle(side) => {
                let inv = stamp();
                match side {
                    Side::S => drop(self.hs.pop().expect("no sender")),
                    Side::R => drop(self.hr.pop().expect("no receiver")),
                }
                hist::push_hdrop(self.t, side, inv, stamp());
                Out::r(Res::Ok)
            }
            Op::Len(side) => Out::r(Res::Num(on_handle!(self, side, |h| h.len()) as u64)),
            Op::IsEmpty(side) => Out::r(Res::Bool(on_handle!(self, side, |h| h.is_empty()))),
            Op::IsFull(side) => Out::r(Res::Bool(on_handle!(self, side, |h| h.is_full()))),
            Op::Cap(side) => Out::r(Res::Num(on_handle!(self, side, |h| h.capacity()) as u64)),
            Op::IsBounded(side) => Out::r(Res::Bool(on_handle!(self, side, |h| h.is_bounded()))),
            Op::SCount(side) => Out::r(Res::Num(on_handle!(self, side, |h| h.sender_count()) as u64)),
            Op::RCount(side) => Out::r(Res::Num(on_handle!(self, side, |h| h.receiver_count()) as u64)),
            Op::IsClosed(side) => Out::r(Res::Bool(on_handle!(self, side, |h| h.is_closed()))),
            Op::IsDisc(side) => Out::r(Res::Bool(on_handle!(self, side, |h| h.is_disconnected()))),
            Op::IsTerm => Out::r(Res::Bool(match self.r() {
                RH::Sync(r) => r.is_terminated(),
                RH::Async(r) => r.is_terminated(),
            })),
            Op::ObsAll => {
                let mut v: Vec<u64> = Vec::new();
                macro_rules! common {
                    ($h:expr) => {{
                        v.push($h.len() as u64);
                        v.push($h.is_empty() as u64);
                        v.push($h.is_full() as u64);
                        v.push($h.capacity() as u64);
                        v.push($h.is_bounded() as u64);
                        v.push($h.sender_count() as u64);
                        v.push($h.receiver_count() as u64);
                        v.push($h.is_closed() as u64);
                        v.push($h.is_disconnected() as u64);
                    }};
                }
                if let Some(h) = self.hs.last() {
                    match &**h {
                        SH::Sync(s) => common!(s),
                        SH::Async(s) => common!(s),
                    }
                }
                if let Some(h) = self.hr.last() {
                    match &**h {
                        RH::Sync(r) => {
                            common!(r);
                            v.push(r.is_terminated() as u64)
                        }
                        RH::Async(r) => {
                            common!(r);
                            v.push(r.is_terminated() as u64)
                        }
                    }
                }
                Out::r(Res::ObsVec(v))
            }
            #[cfg(not(feature = "seam"))]
            Op::LockL => {
                let g = self.flags.lock.lock();
                self.flags.critical_section(&g);
                drop(g);
                Out::r(Res::Unit)
            }
            #[cfg(not(feature = "seam"))]
            Op::LockT => {
                let g = ctl::nowait(NoWait::Lock, || self.flags.lock.try_lock());
                let got = g.is_some();
                if let Some(g) = g {
                    self.flags.critical_section(&g);
                    drop(g);
                }
                Out::r(Res::Bool(got))
            }
            #[cfg(feature = "seam")]
            Op::LockL | Op::LockT => panic!("lock programs run on the default build"),
            Op::Set(i) => {
                self.flags.set(i as usize);
                Out::r(Res::Unit)
            }
            Op::Wait(i) => {
                self.flags.wait(i as usize);
                Out::r(Res::Unit)
            }
        }
    }
}

struct StreamNextFut<'a, 'b, T>(Pin<&'a mut ReceiveStream<'b, T>>);
impl<'a, 'b, T> Future for StreamNextFut<'a, 'b, T> {
    type Output = Option<T>;
    fn poll(mut self: Pin<&mut Self>, cx: &mut Context<'_>) -> Poll<Option<T>> {
        futures_core::Stream::poll_next(self.0.as_mut(), cx)
    }
}

/// Build the channel and the per-thread handle sets (thread 0 does this,
/// sequentially, at the start of every execution).
pub fn setup<T: Payload>(p: &Program) -> Vec<(Option<SH<T>>, Option<RH<T>>)> {
    let (s0, r0): (SH<T>, RH<T>) = match (p.ctor, p.cap) {
        (Flavour::Sync, Cap::B(n)) => {
            let (s, r) = kanal::bounded::<T>(n as usize);
            (SH::Sync(s), RH::Sync(r))
        }
        (Flavour::Sync, Cap::Big) => {
            let (s, r) = kanal::bounded::<T>(crate::prog::BIG);
            (SH::Sync(s), RH::Sync(r))
        }
        (Flavour::Async, Cap::Big) => {
            let (s, r) = kanal::bounded_async::<T>(crate::prog::BIG);
            (SH::Async(s), RH::Async(r))
        }
        (Flavour::Sync, Cap::Unbounded) => {
            let (s, r) = kanal::unbounded::<T>();
            (SH::Sync(s), RH::Sync(r))
        }
        (Flavour::Async, Cap::B(n)) => {
            let (s, r) = kanal::bounded_async::<T>(n as usize);
            (SH::Async(s), RH::Async(r))
        }
        (Flavour::Async, Cap::Unbounded) => {
            let (s, r) = kanal::unbounded_async::<T>();
            (SH::Async(s), RH::Async(r))
        }
    };
    // the lock word of the default build is created lazily: touch it here
    match &s0 {
        SH::Sync(s) => {
            let _ = s.capacity();
        }
        SH::Async(s) => {
            let _ = s.capacity();
        }
    }
    let mut out: Vec<(Option<SH<T>>, Option<RH<T>>)> = Vec::new();
    for th in p.threads.iter().skip(1) {
        out.push((
            th.s.map(|f| s0.derive(f, p.via)),
            th.r.map(|f| r0.derive(f, p.via)),
        ));
    }
    let t0 = &p.threads[0];
    let s_own = match t0.s {
        None => {
            drop(s0);
            None
        }
        Some(f) if f == s0.flavour() => Some(s0),
        Some(_) => Some(s0.convert()),
    };
    let r_own = match t0.r {
        None => {
            drop(r0);
            None
        }
        Some(f) if f == r0.flavour() => Some(r0),
        Some(_) => Some(r0.convert()),
    };
    out.insert(0, (s_own, r_own));
    out
}
