//! kmc — model-checking harness for kanal (see /verif/DESIGN.md).

mod exec;
mod gen;
mod hist;
mod model;
mod oracle;
mod payload;
mod prog;
mod runner;
mod seq;

use std::io::Write;

/// Global allocator hook: freed heap memory loses its tracking state.
struct TrackingAlloc;
unsafe impl std::alloc::GlobalAlloc for TrackingAlloc {
    unsafe fn alloc(&self, l: std::alloc::Layout) -> *mut u8 {
        std::alloc::System.alloc(l)
    }
    unsafe fn dealloc(&self, p: *mut u8, l: std::alloc::Layout) {
        kanal_verif_rt::track::forget_range(p as usize, l.size());
        std::alloc::System.dealloc(p, l)
    }
    unsafe fn realloc(&self, p: *mut u8, l: std::alloc::Layout, n: usize) -> *mut u8 {
        kanal_verif_rt::track::forget_range(p as usize, l.size());
        std::alloc::System.realloc(p, l, n)
    }
}
#[global_allocator]
static GLOBAL: TrackingAlloc = TrackingAlloc;

fn build_name() -> &'static str {
    if cfg!(feature = "seam") {
        "seam"
    } else {
        "default"
    }
}

fn mine(p: &prog::Program, par: u8) -> bool {
    p.needs_seam() == cfg!(feature = "seam") && p.env.par == par
}

fn set_env(p: &prog::Program) {
    let mut k = kanal_verif_rt::ctl::knobs();
    k.spin_budget = p.env.spin as u32;
    k.parallelism = p.env.par as usize;
    k.spurious_park = p.env.spurious_park.map(|x| x as u32);
    k.stall = p.env.stall as u32;
    k.lock_spin = p.env.lock_spin as u32;
    kanal_verif_rt::ctl::set_knobs(k);
}

#[derive(serde::Serialize, serde::Deserialize)]
struct SuiteFile {
    cfg: runner::RunCfg,
    rule: String,
    programs: Vec<prog::Program>,
}

/// the suite, from the file the driver generated once, or generated here
fn load_suite(args: &[String]) -> gen::Suite {
    if let Some(f) = arg(args, "--programs") {
        let txt = std::fs::read_to_string(&f).expect("programs file");
        let s: SuiteFile = serde_json::from_str(&txt).expect("programs file json");
        gen::Suite {
            cfg: s.cfg,
            rule: s.rule,
            programs: s.programs,
        }
    } else {
        gen::suite(&args[2], args[3] == "thorough")
    }
}

fn arg(args: &[String], name: &str) -> Option<String> {
    args.iter().position(|a| a == name).and_then(|i| args.get(i + 1).cloned())
}

fn main() {
    let args: Vec<String> = std::env::args().collect();
    let cmd = args.get(1).map(|s| s.as_str()).unwrap_or("");
    runner::install_panic_hook();
    match cmd {
        "list" => {
            let s = gen::suite(&args[2], args[3] == "thorough");
            if let Some(f) = arg(&args, "--dump") {
                let sf = SuiteFile {
                    cfg: s.cfg.clone(),
                    rule: s.rule.clone(),
                    programs: s.programs.clone(),
                };
                std::fs::write(&f, serde_json::to_string(&sf).unwrap()).unwrap();
            }
            let mut counts = std::collections::BTreeMap::new();
            for p in &s.programs {
                *counts
                    .entry((if p.needs_seam() { "seam" } else { "default" }, p.env.par))
                    .or_insert(0u64) += 1;
            }
            let v: Vec<_> = counts
                .iter()
                .map(|((b, par), n)| serde_json::json!({"build": b, "par": par, "programs": n}))
                .collect();
            println!(
                "{}",
                serde_json::json!({"total": s.programs.len(), "groups": v, "rule": s.rule, "cfg": s.cfg, "seq_rule": seq::suites(&args[2], args[3] == "thorough").1, "seq_kinds": seq::cfg().kinds})
            );
        }
        "run" => {
            let s = load_suite(&args);
            let par: u8 = arg(&args, "--par").unwrap().parse().unwrap();
            let shard = arg(&args, "--shard").unwrap();
            let (i, n) = shard.split_once('/').unwrap();
            let (i, n): (usize, usize) = (i.parse().unwrap(), n.parse().unwrap());
            let from: usize = arg(&args, "--from").map(|x| x.parse().unwrap()).unwrap_or(0);
            let out = arg(&args, "--out").unwrap();
            let mut f = std::fs::OpenOptions::new().create(true).append(true).open(&out).unwrap();
            // a shim monitor reports through this callback before it panics
            {
                let out2 = out.clone();
                kanal_verif_rt::ctl::on_violation(Box::new(move |m| {
                    if let Ok(mut f) = std::fs::OpenOptions::new().append(true).open(&out2) {
                        let _ = writeln!(f, "{}", serde_json::json!({"shim_violation": m}));
                    }
                }));
            }
            let mut k = 0usize;
            for (idx, p) in s.programs.iter().enumerate() {
                if !mine(p, par) {
                    continue;
                }
                let slot = k;
                k += 1;
                if slot % n != i || idx < from {
                    continue;
                }
                writeln!(f, "{}", serde_json::json!({"start": idx, "name": p.name})).unwrap();
                f.flush().unwrap();
                set_env(p);
                *runner::PANIC_SINK.lock().unwrap() = Some((out.clone(), idx));
                let mut rec = runner::run_program(idx, p, &s.cfg, build_name());
                *runner::PANIC_SINK.lock().unwrap() = None;
                if rec.violation.is_some() || rec.foreign.is_some() || rec.cap_hit.is_some() {
                    rec.program = Some(p.clone());
                } else if idx % 97 != 0 {
                    rec.sample = None;
                }
                if rec.sample.is_some() {
                    rec.program = Some(p.clone());
                }
                writeln!(f, "{}", serde_json::to_string(&rec).unwrap()).unwrap();
                f.flush().unwrap();
            }
            writeln!(f, "{}", serde_json::json!({"shard_done": shard})).unwrap();
        }
        "seq" => {
            let shard = arg(&args, "--shard").unwrap();
            let (i, n) = shard.split_once('/').unwrap();
            let (i, n): (usize, usize) = (i.parse().unwrap(), n.parse().unwrap());
            let out = arg(&args, "--out").unwrap();
            let mut f = std::fs::OpenOptions::new().create(true).append(true).open(&out).unwrap();
            let mut k = kanal_verif_rt::ctl::knobs();
            k.parallelism = 2;
            kanal_verif_rt::ctl::set_knobs(k);
            writeln!(f, "{}", serde_json::json!({"start": 0, "name": format!("sequential shard {shard}")})).unwrap();
            *runner::PANIC_SINK.lock().unwrap() = Some((out.clone(), 0));
            let st = seq::run(&args[2], args[3] == "thorough", (i, n), arg(&args, "--after"));
            *runner::PANIC_SINK.lock().unwrap() = None;
            for v in &st.violations {
                writeln!(f, "{}", serde_json::to_string(v).unwrap()).unwrap();
            }
            let mut sum = runner::ProgRecord {
                index: 0,
                name: format!("sequential shard {shard}"),
                build: build_name().into(),
                executions: st.sequences,
                completed: true,
                model_states: st.model_states,
                model_transitions: st.model_transitions,
                model_outcomes: st.model_outcomes,
                impl_outcomes: st.sequences,
                distinct_histories: st.distinct.len() as u64,
                ..Default::default()
            };
            if let Some(s) = st.sample {
                sum.sample = s.sample;
                sum.program = s.program;
            }
            let mut v = serde_json::to_value(&sum).unwrap();
            v["seq"] = serde_json::json!({"sequences": st.sequences, "not_enabled_blocking": st.skipped_blocking, "max_depth": st.max_depth, "graph_states": st.graph_states, "graph_edges": st.graph_edges});
            writeln!(f, "{}", v).unwrap();
            writeln!(f, "{}", serde_json::json!({"shard_done": shard})).unwrap();
        }
        "one" => {
            // run one program given as JSON (file) with a suite's cfg
            let s = load_suite(&args);
            let p: prog::Program = if let Ok(idx) = args[4].parse::<usize>() {
                s.programs[idx].clone()
            } else {
                let txt = std::fs::read_to_string(&args[4]).unwrap();
                let v: serde_json::Value = serde_json::from_str(&txt).unwrap();
                serde_json::from_value(v.get("program").cloned().unwrap_or(v)).unwrap()
            };
            if p.needs_seam() != cfg!(feature = "seam") {
                eprintln!("program needs the {} build", if p.needs_seam() { "seam" } else { "default" });
                std::process::exit(3);
            }
            set_env(&p);
            let cfg = if args.iter().any(|a| a == "--seq") { seq::cfg() } else { s.cfg.clone() };
            let rec = runner::run_program(0, &p, &cfg, build_name());
            println!("{}", serde_json::to_string_pretty(&rec).unwrap());
            if rec.violation.is_some() {
                std::process::exit(1);
            }
        }
        _ => {
            eprintln!("usage: kmc list|run|one ...");
            std::process::exit(2);
        }
    }
}
