fn main() {
    loom::model(|| {
        kanal_verif_rt::ctl::begin_execution();
        let (s, r) = kanal::bounded::<[usize; 3]>(0);
        let _ = s.capacity();
        let t = loom::thread::spawn(move || {
            s.send([1, 2, 3]).unwrap();
        });
        assert_eq!(r.recv().unwrap(), [1, 2, 3]);
        t.join().unwrap();
        kanal_verif_rt::ctl::end_execution();
    });
    println!("ok {:?}", kanal_verif_rt::ctl::take_totals());
}
