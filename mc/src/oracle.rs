//! Oracles: functions of one recorded history (plus, for the outcome oracle,
//! the reference model's outcome set).  Each returns Err(message) when the
//! property it stands for is violated in this execution.

use crate::exec::SENTINELS;
use crate::hist::{Call, History, Res, E};
use crate::model::Explored;
use crate::prog::*;
use serde::{Deserialize, Serialize};
use std::collections::BTreeMap;

#[derive(Clone, Copy, Debug, PartialEq, Eq, Hash, PartialOrd, Ord, Serialize, Deserialize)]
pub enum Oracle {
    /// C01
    ExactlyOnce,
    /// C02
    Fifo,
    /// C03 (also the value-level half of C08/C10/C11/C14/C15/C19)
    Outcome,
    /// C04
    Intact,
    /// C05
    DropOnce,
    /// C08
    Capacity,
    /// C10
    Close,
    /// C11
    Disconnect,
    /// C12 (concurrent part): counts observed are model-consistent is in
    /// Outcome; this one checks counts against the live-handle ledger
    Counts,
    /// C13
    Timed,
    /// C19
    Drain,
    /// linearizability w.r.t. the reference model (real-time order respected):
    /// used where a statement speaks about instants (C08, C10, C11, C14, C19)
    Linear,
    /// a timed operation that ended with a closed / disconnected error was
    /// released by that event and not by its own (far) deadline
    Released,
}

#[derive(Clone, Copy, PartialEq, Eq, Debug)]
enum SendStatus {
    /// some call reported success for the tag
    Success,
    /// some call reported failure / refusal / timeout
    Failure,
    /// future never completed (never polled to completion, or dropped)
    Unknown,
}

struct Facts<'a> {
    p: &'a Program,
    h: &'a History,
    /// tag -> (status, the call that decided it (or the creating call))
    sends: BTreeMap<Tag, (SendStatus, &'a Call)>,
    /// tag -> receiving calls
    recvs: BTreeMap<Tag, Vec<&'a Call>>,
    /// first call touching the channel for each sent tag (send op, or first
    /// poll of the future)
    begin: BTreeMap<Tag, u64>,
    /// stamp at which the tag was surely inside the channel: success return,
    /// Pending return of its poll, or its waiter's publication
    inside: BTreeMap<Tag, u64>,
}

fn vals_of(c: &Call) -> Vec<Tag> {
    match &c.res {
        Res::Val(t) => vec![*t],
        Res::Drained(_, v) => v.clone(),
        _ => vec![],
    }
}

fn is_recv_result(c: &Call) -> bool {
    c.op.is_recv_like() || matches!(c.op, Op::Poll(..))
}

impl<'a> Facts<'a> {
    fn new(p: &'a Program, h: &'a History) -> Facts<'a> {
        let mut sends: BTreeMap<Tag, (SendStatus, &Call)> = BTreeMap::new();
        let mut recvs: BTreeMap<Tag, Vec<&Call>> = BTreeMap::new();
        let mut begin = BTreeMap::new();
        let mut inside = BTreeMap::new();
        for c in &h.calls {
            if let Some(t) = c.tag {
                let is_poll = matches!(c.op, Op::Poll(..));
                let is_create = matches!(c.op, Op::FSend(_));
                let is_fdrop = matches!(c.op, Op::FDrop(_));
                if !is_create && !is_fdrop {
                    begin.entry(t).or_insert(c.inv);
                }
                let st = if is_create || is_fdrop {
                    SendStatus::Unknown
                } else {
                    match &c.res {
                        Res::Ok => SendStatus::Success,
                        Res::Pending => SendStatus::Unknown,
                        Res::Panicked => SendStatus::Unknown,
                        _ => SendStatus::Failure,
                    }
                };
                let e = sends.entry(t).or_insert((SendStatus::Unknown, c));
                if st != SendStatus::Unknown {
                    *e = (st, c);
                }
                match &c.res {
                    Res::Ok => {
                        inside.entry(t).or_insert(c.ret);
                    }
                    Res::Pending if is_poll => {
                        inside.entry(t).or_insert(c.ret);
                    }
                    _ => {}
                }
                if let Some(r) = c.registered {
                    let e = inside.entry(t).or_insert(r);
                    if r < *e {
                        *e = r;
                    }
                }
            }
            if is_recv_result(c) {
                for t in vals_of(c) {
                    recvs.entry(t).or_default().push(c);
                }
            }
        }
        Facts {
            p,
            h,
            sends,
            recvs,
            begin,
            inside,
        }
    }
    fn tagged(&self) -> bool {
        self.p.class.carries_tag()
    }
}

pub fn check(o: Oracle, p: &Program, h: &History, model: Option<&Explored>) -> Result<(), String> {
    let f = Facts::new(p, h);
    match o {
        Oracle::ExactlyOnce => exactly_once(&f),
        Oracle::Fifo => fifo(&f),
        Oracle::Outcome => outcome(p, h, model.expect("outcome oracle needs the model")),
        Oracle::Intact => intact(&f),
        Oracle::DropOnce => drop_once(&f),
        Oracle::Capacity => capacity(&f),
        Oracle::Close => close(&f),
        Oracle::Disconnect => disconnect(&f),
        Oracle::Counts => counts(&f),
        Oracle::Timed => timed(&f),
        Oracle::Drain => drain(&f),
        Oracle::Linear => linear(p, h),
        Oracle::Released => released(&f),
    }
}

fn exactly_once(f: &Facts) -> Result<(), String> {
    if !f.tagged() {
        // zero-sized: only counts can be compared
        let succ = f.sends.len().max(
            f.h.calls
                .iter()
                .filter(|c| c.tag.is_some() && c.res == Res::Ok)
                .count(),
        );
        let possible = f
            .h
            .calls
            .iter()
            .filter(|c| c.op.is_send_like())
            .count();
        let got: usize = f.h.calls.iter().filter(|c| is_recv_result(c)).map(|c| vals_of(c).len()).sum();
        let _ = succ;
        if got > possible {
            return Err(format!("{got} values received but only {possible} were ever sent"));
        }
        // every failed send subtracts one from what may be received
        let failed = f
            .h
            .calls
            .iter()
            .filter(|c| c.op.is_send_like() && !matches!(c.op, Op::FSend(_)) && !matches!(c.res, Res::Ok))
            .count();
        if got > possible - failed {
            return Err(format!(
                "{got} values received, but of {possible} sends {failed} reported failure"
            ));
        }
        return Ok(());
    }
    for (t, cs) in &f.recvs {
        if SENTINELS.contains(t) {
            return Err(format!("sentinel value {t} (never sent) came out of the channel"));
        }
        if !f.sends.contains_key(t) {
            return Err(format!("received value {t} that no send supplied"));
        }
        if cs.len() > 1 {
            return Err(format!(
                "value {t} handed to {} receive operations: {:?}",
                cs.len(),
                cs.iter().map(|c| (c.thread, c.idx)).collect::<Vec<_>>()
            ));
        }
    }
    for (t, (st, c)) in &f.sends {
        let n = f.recvs.get(t).map(|v| v.len()).unwrap_or(0);
        match st {
            SendStatus::Failure if n > 0 => {
                return Err(format!(
                    "send of {t} (thread {} op {}) reported {:?} but the value was received",
                    c.thread, c.idx, c.res
                ))
            }
            SendStatus::Success if n == 0 && f.p.class.droppable() => {
                // nobody received it: the channel must have destroyed it
                let d = f.h.drops.iter().filter(|d| d.tag == *t).count();
                if d == 0 {
                    return Err(format!(
                        "send of {t} reported success, nobody received it and it was never destroyed (silently vanished)"
                    ));
                }
            }
            _ => {}
        }
    }
    Ok(())
}

fn intact(f: &Facts) -> Result<(), String> {
    for c in &f.h.calls {
        if !c.intact {
            return Err(format!(
                "thread {} op {} ({:?}) obtained a value whose bytes differ from what was sent ({:?})",
                c.thread, c.idx, c.op, c.res
            ));
        }
    }
    // a received tag that was never sent is a corrupted value too
    if f.tagged() {
        for t in f.recvs.keys() {
            if !f.sends.contains_key(t) {
                return Err(format!("received value with tag {t}: no such value was sent"));
            }
        }
    }
    Ok(())
}

fn drop_once(f: &Facts) -> Result<(), String> {
    // the Option contract holds for every class
    for c in &f.h.calls {
        if let Some(some) = c.opt_some {
            let ok = c.res == Res::Ok;
            if ok && some {
                return Err(format!(
                    "thread {} op {} ({:?}) reported success but left the value in the Option",
                    c.thread, c.idx, c.op
                ));
            }
            if !ok && !some {
                return Err(format!(
                    "thread {} op {} ({:?}) reported {:?} but took the value out of the Option",
                    c.thread, c.idx, c.op, c.res
                ));
            }
        }
    }
    if !f.p.class.droppable() {
        return Ok(());
    }
    let created: Vec<Tag> = f
        .h
        .calls
        .iter()
        .filter(|c| c.op.is_send_like())
        .map(|c| c.tag.unwrap())
        .collect();
    if !f.tagged() {
        let sentinels = 2 * f
            .h
            .calls
            .iter()
            .filter(|c| matches!(c.op, Op::Drain(VecState::Prefilled)))
            .count();
        let want = created.len() + sentinels;
        let got = f.h.drops.len();
        if want != got {
            return Err(format!("{want} values were created but {got} destructor runs were recorded"));
        }
        return Ok(());
    }
    for t in created {
        let ds: Vec<_> = f.h.drops.iter().filter(|d| d.tag == t).collect();
        if ds.len() != 1 {
            let (_, c) = &f.sends[&t];
            return Err(format!(
                "value {t} (thread {} op {} {:?} -> {:?}) was destroyed {} times (stamps {:?})",
                c.thread,
                c.idx,
                c.op,
                c.res,
                ds.len(),
                ds.iter().map(|d| (d.stamp, d.thread, d.by_harness)).collect::<Vec<_>>()
            ));
        }
    }
    Ok(())
}

fn fifo(f: &Facts) -> Result<(), String> {
    if !f.tagged() {
        return Ok(());
    }
    // a before b: a was inside the channel before b's send began
    for (a, ia) in &f.inside {
        for (b, bb) in &f.begin {
            if a == b || ia >= bb {
                continue;
            }
            let (Some(ra), Some(rb)) = (f.recvs.get(a), f.recvs.get(b)) else {
                continue;
            };
            let (ra, rb) = (ra[0], rb[0]);
            if std::ptr::eq(ra, rb) {
                // same drain: positions
                let v = vals_of(ra);
                let pa = v.iter().position(|x| x == a).unwrap();
                let pb = v.iter().position(|x| x == b).unwrap();
                if pb < pa {
                    return Err(format!(
                        "drain (thread {} op {}) lists {b} before {a} although {a} was accepted first",
                        ra.thread, ra.idx
                    ));
                }
            } else if rb.ret < ra.inv {
                return Err(format!(
                    "value {b} was delivered (thread {} op {} returned at {}) before the receive of {a} (thread {} op {}) even began (at {}), although {a} was inside the channel (at {}) before the send of {b} began (at {})",
                    rb.thread, rb.idx, rb.ret, ra.thread, ra.idx, ra.inv, ia, bb
                ));
            }
        }
    }
    Ok(())
}

fn capacity(f: &Facts) -> Result<(), String> {
    match f.p.cap {
        Cap::Unbounded => {
            for c in &f.h.calls {
                let refused = match c.op {
                    Op::Send | Op::SendRepoll | Op::SendT(_) | Op::SendOT(_) | Op::TrySend | Op::TrySendO => {
                        matches!(c.res, Res::NotDone | Res::Err(E::Timeout))
                    }
                    Op::Poll(..) if c.tag.is_some() => c.res == Res::Pending,
                    _ => false,
                };
                if refused {
                    return Err(format!(
                        "unbounded channel: thread {} op {} ({:?}) was refused / had to wait: {:?}",
                        c.thread, c.idx, c.op, c.res
                    ));
                }
                if c.op == Op::IsFull(Side::S) || c.op == Op::IsFull(Side::R) {
                    if c.res == Res::Bool(true) {
                        return Err("unbounded channel reports is_full".into());
                    }
                }
            }
            Ok(())
        }
        Cap::B(_) | Cap::Big => {
            let n = match f.p.cap {
                Cap::B(n) => n as i64,
                _ => crate::prog::BIG as i64,
            };
            for c in &f.h.calls {
                if let (Op::Len(_), Res::Num(l)) = (c.op, &c.res) {
                    if *l as i64 > n {
                        return Err(format!("len() = {l} exceeds the capacity {n}"));
                    }
                }
            }
            // at the return of every successful send:
            //   successes so far - values taken by receives begun so far <= n
            let succ: Vec<u64> = f
                .h
                .calls
                .iter()
                .filter(|c| c.tag.is_some() && c.res == Res::Ok && !matches!(c.op, Op::FSend(_) | Op::FDrop(_)))
                .map(|c| c.ret)
                .collect();
            // a receive operation "begins" when it is invoked; for a future or
            // a stream wait that is the first poll of that wait, not the poll
            // that finally returned the value.  A receive future that was
            // registered and never polled to completion may have absorbed one
            // value (it is dropped with it): it counts as a possible take.
            let mut takes: Vec<(u64, usize)> = Vec::new();
            let nthreads = f.p.threads.len();
            for t in 0..nthreads {
                let mut calls: Vec<&Call> = f.h.calls.iter().filter(|c| c.thread == t).collect();
                calls.sort_by_key(|c| c.idx);
                // per slot: stamp at which the current wait began, and whether
                // it is a receive-side future
                let mut begin: [Option<u64>; 4] = [None; 4];
                let mut is_recv: [bool; 4] = [false; 4];
                for c in calls {
                    match c.op {
                        Op::FRecv(s) | Op::FStream(s) => {
                            is_recv[s as usize] = true;
                            begin[s as usize] = None;
                        }
                        Op::FSend(s) => {
                            is_recv[s as usize] = false;
                            begin[s as usize] = None;
                        }
                        Op::Poll(s, _) | Op::StreamNext(s) if is_recv[(s & 0x7f) as usize] => {
                            let s = (s & 0x7f) as usize;
                            let b = *begin[s].get_or_insert(c.inv);
                            let n = vals_of(c).len();
                            if n > 0 {
                                takes.push((b, n));
                                begin[s] = None;
                            } else if !matches!(c.res, Res::Pending) {
                                begin[s] = None;
                            }
                        }
                        Op::FDrop(s) => {
                            let s = s as usize;
                            if is_recv[s] {
                                if let Some(b) = begin[s].take() {
                                    takes.push((b, 1));
                                }
                            }
                            is_recv[s] = false;
                        }
                        _ => {
                            if is_recv_result(c) && !matches!(c.op, Op::Poll(..) | Op::StreamNext(_)) {
                                let n = vals_of(c).len();
                                if n > 0 {
                                    takes.push((c.inv, n));
                                }
                            }
                        }
                    }
                }
                // waits still pending at the end of the thread
                for s in 0..4 {
                    if is_recv[s] {
                        if let Some(b) = begin[s] {
                            takes.push((b, 1));
                        }
                    }
                }
            }
            for &t in &succ {
                let s = succ.iter().filter(|&&x| x <= t).count() as i64;
                let r: i64 = takes.iter().filter(|x| x.0 <= t).map(|x| x.1 as i64).sum();
                if s - r > n {
                    return Err(format!(
                        "at stamp {t}: {s} sends have reported success but only {r} values were taken by receive operations begun so far; capacity is {n}"
                    ));
                }
            }
            Ok(())
        }
    }
}

fn close(f: &Facts) -> Result<(), String> {
    let closes: Vec<&Call> = f.h.calls.iter().filter(|c| matches!(c.op, Op::Close(_))).collect();
    let oks: Vec<&&Call> = closes.iter().filter(|c| c.res == Res::Ok).collect();
    if closes.is_empty() {
        return Ok(());
    }
    if oks.len() > 1 {
        return Err(format!("{} close() calls reported success", oks.len()));
    }
    // the first close to *complete* must be the successful one, unless it
    // overlaps a successful one
    let Some(ok) = oks.first() else {
        // all handles may already have been closed by ... nothing else closes
        return Err("close() was called but no call reported success".into());
    };
    for c in &closes {
        if c.res != Res::Ok && c.ret < ok.inv {
            return Err("a close() reported 'already closed' before any close had begun to succeed".into());
        }
    }
    let after = ok.ret;
    for c in &f.h.calls {
        if c.inv <= after {
            continue;
        }
        let bad = match c.op {
            Op::Send | Op::SendRepoll | Op::SendT(_) | Op::SendOT(_) | Op::TrySend | Op::TrySendO | Op::TrySendRt
            | Op::TrySendORt => !matches!(c.res, Res::Err(E::Closed)) && !(matches!(c.op, Op::TrySendRt | Op::TrySendORt) && c.res == Res::NotDone),
            Op::Recv | Op::RecvRepoll | Op::RecvT(_) | Op::TryRecv | Op::Drain(_) => {
                !matches!(c.res, Res::Err(E::Closed))
            }
            Op::TryRecvRt => !matches!(c.res, Res::Err(E::Closed) | Res::NotDone),
            Op::Next => c.res != Res::NotDone,
            Op::Len(_) => c.res != Res::Num(0),
            Op::IsEmpty(_) => c.res != Res::Bool(true),
            Op::SCount(_) | Op::RCount(_) => c.res != Res::Num(0),
            Op::IsClosed(_) | Op::IsDisc(_) | Op::IsTerm => c.res != Res::Bool(true),
            Op::Close(_) => c.res != Res::Err(E::AlreadyClosed),
            _ => false,
        };
        if bad {
            return Err(format!(
                "close() returned at stamp {after}; thread {} op {} ({:?}) began afterwards (at {}) and returned {:?}",
                c.thread, c.idx, c.op, c.inv, c.res
            ));
        }
        // a future first polled after the close must fail Closed
        if let Op::Poll(slot, _) = c.op {
            let first_poll = !f.h.calls.iter().any(|x| {
                x.thread == c.thread && x.idx < c.idx && matches!(x.op, Op::Poll(s, _) if s == slot) && {
                    // polls of the same future: no FDrop / re-create in between
                    !f.h.calls.iter().any(|y| {
                        y.thread == c.thread
                            && y.idx > x.idx
                            && y.idx < c.idx
                            && matches!(y.op, Op::FSend(s) | Op::FRecv(s) | Op::FStream(s) if s == slot)
                    })
                }
            });
            if first_poll && !matches!(c.res, Res::Err(E::Closed) | Res::End) {
                return Err(format!(
                    "close() returned at {after}; a future first polled afterwards (thread {} op {}) returned {:?}",
                    c.thread, c.idx, c.res
                ));
            }
        }
    }
    // buffered values are destroyed by the time close returns
    let has_recv_fdrop = f.p.threads.iter().any(|t| t.ops.iter().any(|o| matches!(o, Op::FDrop(_))));
    if f.p.class.droppable() && f.tagged() && !has_recv_fdrop {
        for (t, (st, c)) in &f.sends {
            if *st == SendStatus::Success && c.ret < ok.inv && !f.recvs.contains_key(t) {
                let d: Vec<_> = f.h.drops.iter().filter(|d| d.tag == *t).collect();
                if d.len() == 1 && d[0].stamp > ok.ret {
                    return Err(format!(
                        "value {t} was accepted before close() began and never received, but it was destroyed only at stamp {} — after close() had returned (at {})",
                        d[0].stamp, ok.ret
                    ));
                }
            }
        }
    }
    Ok(())
}

/// Is some handle of `side` surely alive during the whole interval up to
/// `to`?  Conservative: a thread that held a handle of that side from the
/// start surely still holds one until its first drop of that side begins.
fn surely_alive(f: &Facts, side: Side, to: u64) -> bool {
    for (ti, th) in f.p.threads.iter().enumerate() {
        let has = match side {
            Side::S => th.s.is_some(),
            Side::R => th.r.is_some(),
        };
        if !has {
            continue;
        }
        let first = f
            .h
            .hdrops
            .iter()
            .filter(|d| d.0 == ti && d.1 == side)
            .map(|d| d.2)
            .min();
        match first {
            Some(fd) if fd > to => return true,
            None => return true,
            _ => {}
        }
    }
    false
}

fn disconnect(f: &Facts) -> Result<(), String> {
    let closed_at = f
        .h
        .calls
        .iter()
        .filter(|c| matches!(c.op, Op::Close(_)) && c.res == Res::Ok)
        .map(|c| c.inv)
        .min();
    for c in &f.h.calls {
        if let Some(cl) = closed_at {
            if c.ret > cl {
                continue;
            }
        }
        let (side, what) = match (&c.op, &c.res) {
            (_, Res::Err(E::SendClosed)) => (Side::S, "a send-side disconnect"),
            (_, Res::Err(E::ReceiveClosed)) => (Side::R, "a receive-side disconnect"),
            (Op::IsDisc(Side::R), Res::Bool(true)) | (Op::IsTerm, Res::Bool(true)) => (Side::S, "is_disconnected/is_terminated = true"),
            (Op::IsDisc(Side::S), Res::Bool(true)) => (Side::R, "is_disconnected = true"),
            (Op::Next, Res::NotDone) => (Side::S, "end of iteration"),
            _ => continue,
        };
        if surely_alive(f, side, c.ret) {
            return Err(format!(
                "thread {} op {} ({:?}) observed {what} ({:?}) while a {} handle was still alive",
                c.thread,
                c.idx,
                c.op,
                c.res,
                if side == Side::S { "sender" } else { "receiver" }
            ));
        }
    }
    // a send that failed ReceiveClosed gave its value to nobody: ExactlyOnce
    exactly_once(f)
}

fn counts(f: &Facts) -> Result<(), String> {
    // any count observed never exceeds the number of handles ever created for
    // that side and is 0 after a successful close (Close oracle); exact
    // equality is decided by the Outcome oracle against the model
    let max_s = f.p.threads.iter().filter(|t| t.s.is_some()).count()
        + f.p
            .threads
            .iter()
            .map(|t| {
                t.ops
                    .iter()
                    .filter(|o| matches!(o, Op::NewHandle(Side::S, c) if *c != Conv::ToOther))
                    .count()
            })
            .sum::<usize>();
    let max_r = f.p.threads.iter().filter(|t| t.r.is_some()).count()
        + f.p
            .threads
            .iter()
            .map(|t| {
                t.ops
                    .iter()
                    .filter(|o| matches!(o, Op::NewHandle(Side::R, c) if *c != Conv::ToOther))
                    .count()
            })
            .sum::<usize>();
    for c in &f.h.calls {
        match (c.op, &c.res) {
            (Op::SCount(_), Res::Num(n)) if *n as usize > max_s => {
                return Err(format!("sender_count() = {n} but only {max_s} sender handles ever existed"))
            }
            (Op::RCount(_), Res::Num(n)) if *n as usize > max_r => {
                return Err(format!("receiver_count() = {n} but only {max_r} receiver handles ever existed"))
            }
            _ => {}
        }
    }
    Ok(())
}

/// Deadlines of at least this many ticks are "far": the peers of the programs
/// that use them finish within a few dozen scheduling points, and the waiting
/// loop of a timed operation yields once per tick, so a correct
/// implementation notices the close / disconnect long before the deadline.
pub const FAR: u64 = 150;

fn released(f: &Facts) -> Result<(), String> {
    for c in &f.h.calls {
        let d = match c.op {
            Op::SendT(d) | Op::SendOT(d) | Op::RecvT(d) if d != 255 => d as u64,
            _ => continue,
        };
        if d < FAR {
            continue;
        }
        if matches!(c.res, Res::Err(E::Closed) | Res::Err(E::SendClosed) | Res::Err(E::ReceiveClosed))
            && c.clk_ret >= c.clk_inv + d
        {
            return Err(format!(
                "thread {} op {} ({:?}) was not released by the close / disconnect: it reported {:?} only at virtual time {}, when its own deadline {} had passed (started at {})",
                c.thread, c.idx, c.op, c.res, c.clk_ret, c.clk_inv + d, c.clk_inv
            ));
        }
    }
    Ok(())
}

fn timed(f: &Facts) -> Result<(), String> {
    for c in &f.h.calls {
        let d = match c.op {
            Op::SendT(d) | Op::SendOT(d) | Op::RecvT(d) => d as u64,
            _ => continue,
        };
        let send = !matches!(c.op, Op::RecvT(_));
        let allowed = match &c.res {
            Res::Ok => send,
            Res::Val(_) => !send,
            Res::Err(E::Timeout) | Res::Err(E::Closed) => true,
            Res::Err(E::ReceiveClosed) => send,
            Res::Err(E::SendClosed) => !send,
            _ => false,
        };
        if !allowed {
            return Err(format!("thread {} op {} ({:?}) ended in {:?}", c.thread, c.idx, c.op, c.res));
        }
        if c.res == Res::Err(E::Timeout) {
            // the deadline is (first clock read of the call) + d; reporting a
            // timeout requires a clock read that returned a value >= deadline
            // (> for recv_timeout's early test), after which the clock is at
            // least deadline + 1
            let deadline = c.clk_inv + d;
            if c.clk_ret < deadline + 1 {
                return Err(format!(
                    "thread {} op {} ({:?}) reported Timeout at virtual time {} but its deadline was {} (started at {})",
                    c.thread, c.idx, c.op, c.clk_ret, deadline, c.clk_inv
                ));
            }
            if send && f.tagged() {
                let t = c.tag.unwrap();
                if f.recvs.contains_key(&t) {
                    return Err(format!(
                        "thread {} op {} ({:?}) reported Timeout but its value {t} was received",
                        c.thread, c.idx, c.op
                    ));
                }
            }
        }
        if send && f.tagged() && c.res == Res::Ok {
            let t = c.tag.unwrap();
            let n = f.recvs.get(&t).map(|v| v.len()).unwrap_or(0);
            if n > 1 {
                return Err(format!("timed send of {t} succeeded and the value was received {n} times"));
            }
        }
    }
    drop_once(f)
}

fn drain(f: &Facts) -> Result<(), String> {
    for c in &f.h.calls {
        if !matches!(c.op, Op::Drain(_)) {
            continue;
        }
        if !c.prefix_ok {
            return Err(format!(
                "thread {} op {}: drain_into changed the vector's previous contents (or appended although it failed)",
                c.thread, c.idx
            ));
        }
        if let Res::Drained(n, v) = &c.res {
            if *n as usize != v.len() {
                return Err(format!(
                    "thread {} op {}: drain_into returned {n} but appended {} values",
                    c.thread,
                    c.idx,
                    v.len()
                ));
            }
            if f.tagged() {
                // every drained sender is released with success
                for t in v {
                    if let Some((st, sc)) = f.sends.get(t) {
                        if *st == SendStatus::Failure {
                            return Err(format!(
                                "drain took value {t} but its send (thread {} op {}) reported {:?}",
                                sc.thread, sc.idx, sc.res
                            ));
                        }
                    }
                }
            }
        }
    }
    fifo(f)?;
    exactly_once(f)
}

fn outcome(p: &Program, h: &History, m: &Explored) -> Result<(), String> {
    let o = crate::hist::outcome_with_wakes(h, p.threads.len() == 1);
    if m.outcomes.contains(&o) {
        return Ok(());
    }
    // explain: first call whose result no model outcome with the same prefix has
    let mut cands: Vec<&crate::model::Outcome> = m.outcomes.iter().collect();
    for (i, e) in o.iter().enumerate() {
        let next: Vec<&crate::model::Outcome> = cands.iter().copied().filter(|c| c.get(i) == Some(e)).collect();
        if next.is_empty() {
            let mut alts: Vec<String> = cands
                .iter()
                .filter_map(|c| c.get(i))
                .map(|x| format!("{:?}", (&x.2, x.3)))
                .collect();
            alts.sort();
            alts.dedup();
            return Err(format!(
                "results {:?}: no atomic execution of the reference channel produces them; given the other results, thread {} op {} ({:?}; thread 999 = wake counters of the counting wakers) returned {:?} where the model allows only {}",
                o.iter().map(|x| format!("t{}#{}={:?}", x.0, x.1, x.2)).collect::<Vec<_>>(),
                e.0,
                e.1,
                p.threads.get(e.0).and_then(|t| t.ops.get(e.1)),
                (&e.2, e.3),
                alts.join(" | ")
            ));
        }
        cands = next;
    }
    Err(format!("results {:?} are not an outcome of the reference model", o))
}

thread_local! {
    /// verdicts per (program, history shape): identical shapes are decided once
    static LIN_CACHE: std::cell::RefCell<(String, std::collections::HashMap<Vec<u64>, Result<(), String>>)> =
        std::cell::RefCell::new((String::new(), std::collections::HashMap::new()));
}

fn linear(p: &Program, h: &History) -> Result<(), String> {
    // key: relative order of all invocation / return / thread-end events plus
    // the results
    let mut ev: Vec<(u64, u64)> = Vec::new();
    for c in &h.calls {
        let id = (c.thread * 64 + c.idx) as u64;
        ev.push((c.inv, id * 4));
        ev.push((c.ret, id * 4 + 1));
    }
    for (t, b, e) in &h.thread_end {
        ev.push((*b, (*t as u64) * 4 + 2 + (1 << 20)));
        ev.push((*e, (*t as u64) * 4 + 3 + (1 << 20)));
    }
    ev.sort();
    let mut key: Vec<u64> = ev.iter().map(|x| x.1).collect();
    use std::hash::{Hash, Hasher};
    let mut s = std::collections::hash_map::DefaultHasher::new();
    for c in &h.calls {
        (c.thread, c.idx).hash(&mut s);
        c.res.hash(&mut s);
        c.opt_some.hash(&mut s);
    }
    key.push(s.finish());
    LIN_CACHE.with(|c| {
        let mut c = c.borrow_mut();
        if c.0 != p.name {
            c.0 = p.name.clone();
            c.1.clear();
        }
        if let Some(r) = c.1.get(&key) {
            return r.clone();
        }
        let r = crate::model::linearizable(p, h);
        c.1.insert(key, r.clone());
        r
    })
}
