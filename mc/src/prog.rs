//! Program IR: programs are data.  The same `Program` is executed by the
//! interpreter (`exec.rs`, real kanal code under loom) and by the reference
//! model (`model.rs`).

use serde::{Deserialize, Serialize};

pub type Tag = u32;

#[derive(Clone, Copy, Debug, PartialEq, Eq, Hash, PartialOrd, Ord, Serialize, Deserialize)]
pub enum Side {
    S,
    R,
}

#[derive(Clone, Copy, Debug, PartialEq, Eq, Hash, PartialOrd, Ord, Serialize, Deserialize)]
pub enum Flavour {
    Sync,
    Async,
}

/// How a clone / conversion produces a handle.
#[derive(Clone, Copy, Debug, PartialEq, Eq, Hash, PartialOrd, Ord, Serialize, Deserialize)]
pub enum Conv {
    /// `clone()`
    Clone,
    /// `clone_sync()` / `clone_async()` (the other flavour)
    CloneOther,
    /// `to_sync()` / `to_async()` : replaces the handle by the other flavour
    ToOther,
}

/// State of the vector handed to `drain_into`.
#[derive(Clone, Copy, Debug, PartialEq, Eq, Hash, PartialOrd, Ord, Serialize, Deserialize)]
pub enum VecState {
    /// `Vec::new()`
    Empty,
    /// `Vec::with_capacity(8)`
    Spare,
    /// two sentinel values already in it, no spare capacity
    Prefilled,
    /// `Vec::with_capacity(1)`: some spare capacity, less than the backlog
    Tight,
}

#[derive(Clone, Copy, Debug, PartialEq, Eq, Hash, PartialOrd, Ord, Serialize, Deserialize)]
pub enum Op {
    // ---- send-like: each consumes the tag of its position
    /// blocking send (sync handle: `send`; async handle: `send().await` on the
    /// harness executor)
    Send,
    /// `send_timeout(d ticks)`
    SendT(u8),
    /// `send_option_timeout(d ticks)`
    SendOT(u8),
    TrySend,
    TrySendO,
    TrySendRt,
    TrySendORt,
    /// async send driven to completion, re-polled once with a fresh waker
    /// right after the first `Pending` (spurious poll + waker change); the
    /// executor then sleeps on the *new* waker only
    SendRepoll,
    // ---- receive-like
    Recv,
    RecvT(u8),
    TryRecv,
    TryRecvRt,
    Drain(VecState),
    /// `Iterator::next` on a sync receiver
    Next,
    RecvRepoll,
    // ---- scripted futures (async handles), slot 0..3
    FSend(u8),
    FRecv(u8),
    FStream(u8),
    /// poll the future / stream in the slot once with counting waker w (0/1)
    Poll(u8, u8),
    /// drive the stream in the slot to its next item on the executor
    /// (slot | REPOLL: the first Pending poll is followed at once by a poll
    /// with a different waker, as in the *Repoll ops)
    StreamNext(u8),
    FDrop(u8),
    /// `FusedStream::is_terminated` of the stream in the slot
    StreamIsTerm(u8),
    /// move the stream in the slot to another heap location (it is `Unpin`)
    MoveStream(u8),
    // ---- handles (index into the thread's handle list of that side)
    Close(Side),
    NewHandle(Side, Conv),
    DropHandle(Side),
    /// the handle is dropped while its thread is unwinding from a panic
    DropHandleUnwinding(Side),
    /// an Option-taking send called with `None` (documented to panic; the
    /// panic must leave the channel untouched): 0 `try_send_option`, 1
    /// `try_send_option_realtime`, 2 `send_option_timeout(1 tick)`
    SendNone(u8),
    /// `clone_from`: a handle of a *second*, auxiliary channel is overwritten
    /// with a clone of the current handle (and becomes the thread's new top
    /// handle); the result is the auxiliary channel's count of that side
    /// afterwards, which must be 0
    CloneFrom(Side),
    // ---- observers, through a handle of the given side
    Len(Side),
    IsEmpty(Side),
    IsFull(Side),
    Cap(Side),
    IsBounded(Side),
    SCount(Side),
    RCount(Side),
    IsClosed(Side),
    IsDisc(Side),
    IsTerm,
    // ---- cross-thread ordering for curated programs
    Set(u8),
    Wait(u8),
    /// every observer through the thread's current handles, at once (used by
    /// the sequential explorer after every step)
    ObsAll,
    // ---- C17: kanal's own lock driven directly (no channel involved)
    /// lock(); critical section; unlock()
    LockL,
    /// try_lock(); critical section and unlock if acquired
    LockT,
}

/// flag in the slot of `StreamNext`
pub const REPOLL: u8 = 0x80;

impl Op {
    pub fn is_send_like(&self) -> bool {
        matches!(
            self,
            Op::Send
                | Op::SendT(_)
                | Op::SendOT(_)
                | Op::TrySend
                | Op::TrySendO
                | Op::TrySendRt
                | Op::TrySendORt
                | Op::SendRepoll
                | Op::FSend(_)
        )
    }
    pub fn is_recv_like(&self) -> bool {
        matches!(
            self,
            Op::Recv
                | Op::RecvT(_)
                | Op::TryRecv
                | Op::TryRecvRt
                | Op::Drain(_)
                | Op::Next
                | Op::RecvRepoll
                | Op::FRecv(_)
                | Op::FStream(_)
                | Op::StreamNext(_)
        )
    }
    /// side of the handle the op is issued through
    pub fn side(&self) -> Option<Side> {
        use Op::*;
        if self.is_send_like() {
            return Some(Side::S);
        }
        if self.is_recv_like() {
            return Some(Side::R);
        }
        match self {
            Close(s) | NewHandle(s, _) | CloneFrom(s) | DropHandle(s) | DropHandleUnwinding(s) | Len(s) | IsEmpty(s) | IsFull(s) | Cap(s)
            | IsBounded(s) | SCount(s) | RCount(s) | IsClosed(s) | IsDisc(s) => Some(*s),
            IsTerm => Some(Side::R),
            SendNone(_) => Some(Side::S),
            _ => None,
        }
    }
    pub fn needs_async(&self) -> bool {
        matches!(
            self,
            Op::SendRepoll
                | Op::RecvRepoll
                | Op::FSend(_)
                | Op::FRecv(_)
                | Op::FStream(_)
                | Op::StreamNext(_)
        )
    }
    pub fn needs_sync(&self) -> bool {
        matches!(self, Op::SendT(_) | Op::SendOT(_) | Op::RecvT(_) | Op::Next | Op::SendNone(2))
    }
}

#[derive(Clone, Copy, Debug, PartialEq, Eq, Hash, PartialOrd, Ord, Serialize, Deserialize)]
pub enum Cap {
    B(u8),
    Unbounded,
    /// bounded(3 000 000): larger than any pre-allocation limit one might put
    /// into the constructor (72 MB of `[usize; 3]` messages)
    Big,
}

pub const BIG: usize = 3_000_000;

#[derive(Clone, Copy, Debug, PartialEq, Eq, Hash, PartialOrd, Ord, Serialize, Deserialize)]
pub enum Class {
    Z,
    ZA,
    B1,
    B3,
    P,
    L,
    LP,
    D4,
    DP,
    DL,
    DZ,
}

impl Class {
    pub const ALL: [Class; 11] = [
        Class::Z,
        Class::ZA,
        Class::B1,
        Class::B3,
        Class::P,
        Class::L,
        Class::LP,
        Class::D4,
        Class::DP,
        Class::DL,
        Class::DZ,
    ];
    pub fn carries_tag(&self) -> bool {
        !matches!(self, Class::Z | Class::ZA | Class::DZ)
    }
    pub fn droppable(&self) -> bool {
        matches!(self, Class::D4 | Class::DP | Class::DL | Class::DZ)
    }
}

#[derive(Clone, Debug, PartialEq, Eq, Hash, PartialOrd, Ord, Serialize, Deserialize)]
pub struct ThreadSpec {
    /// flavour of the thread's sender handle (None = holds no sender)
    pub s: Option<Flavour>,
    pub r: Option<Flavour>,
    pub ops: Vec<Op>,
}

/// Environment knobs (enumerated outside the model, see DESIGN §2.1).
#[derive(Clone, Copy, Debug, PartialEq, Eq, Hash, PartialOrd, Ord, Serialize, Deserialize)]
pub struct Env {
    pub par: u8,
    pub spin: u8,
    pub spurious_park: Option<u8>,
    /// loom preemption bound (None = all schedules)
    pub preempt: Option<u8>,
    /// sleeps / yields of each thread that do not let the peer run (a peer
    /// frozen for a long time)
    #[serde(default)]
    pub stall: u32,
    /// failed lock acquisitions of each thread that are retried by the lock's
    /// own loop instead of being modelled as blocking
    #[serde(default)]
    pub lock_spin: u32,
}

#[derive(Clone, Debug, PartialEq, Eq, Hash, PartialOrd, Ord, Serialize, Deserialize)]
pub struct Program {
    pub name: String,
    pub cap: Cap,
    pub class: Class,
    /// constructor flavour: `bounded`/`unbounded` (Sync) or `*_async`; handles
    /// of the other flavour are derived through `via`
    pub ctor: Flavour,
    /// how a thread whose flavour differs from `ctor` gets its handle
    pub via: Conv,
    /// thread 0 is the thread that creates the channel
    pub threads: Vec<ThreadSpec>,
    pub env: Env,
    /// number of leading operations of thread 0 that run before the other
    /// threads are started (a sequential prefix that puts the channel into a
    /// non-initial state)
    #[serde(default)]
    pub pre: usize,
}

impl Program {
    pub fn nthreads(&self) -> usize {
        self.threads.len()
    }
    pub fn tag(&self, thread: usize, idx: usize) -> Tag {
        if self.class.carries_tag() {
            (thread * 10 + idx + 1) as Tag
        } else {
            0
        }
    }
    pub fn is_lock_program(&self) -> bool {
        self.threads
            .iter()
            .any(|t| t.ops.iter().any(|o| matches!(o, Op::LockL | Op::LockT)))
    }
    /// Historical: programs with >=3 threads used to run with loom's mutex
    /// in place of kanal's spin lock.  Since the shim models a failed lock
    /// acquisition as blocking (rt/src/atomic.rs) every program runs on the
    /// real lock.
    pub fn needs_seam(&self) -> bool {
        false
    }
}

pub fn thread(s: Option<Flavour>, r: Option<Flavour>, ops: &[Op]) -> ThreadSpec {
    ThreadSpec {
        s,
        r,
        ops: ops.to_vec(),
    }
}
