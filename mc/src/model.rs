//! The reference model: a deliberately boring queue-plus-waiting-list channel.
//!
//! Every API call is one atomic transition, except operations that can wait,
//! which are an atomic *begin* (deliver / buffer / refuse / fail / register)
//! and an atomic *end* (collect the result a peer, close or disconnect left).
//! Timed operations additionally have *expire* (enabled while the waiter is
//! still registered), dropped futures have *cancel*.  Where the property
//! statements leave the answer open, a transition yields several successors
//! (the oracle never demands more than the statements do).
//!
//! `explore` runs the product of the threads' program counters and the model
//! exhaustively (explicit-state, deduplicated) and returns the set of terminal
//! outcome vectors: the specification every implementation execution is
//! compared with.

use crate::hist::{Res, E};
use crate::prog::*;
use std::collections::{BTreeSet, HashSet, VecDeque};

pub type Wid = u16;

#[derive(Clone, Debug, PartialEq, Eq, Hash, PartialOrd, Ord)]
pub struct Waiter {
    pub wid: Wid,
    pub tag: Tag,
    /// 0/1 counting wakers, 2 executor waker, 3 sync (thread)
    pub waker: u8,
}

#[derive(Clone, Copy, Debug, PartialEq, Eq, Hash, PartialOrd, Ord)]
pub enum Why {
    Peer,
    Close,
    Disc,
}

#[derive(Clone, Debug, PartialEq, Eq, Hash, PartialOrd, Ord)]
pub struct Chan {
    /// usize::MAX = unbounded
    pub cap: usize,
    pub queue: VecDeque<Tag>,
    pub waiters: VecDeque<Waiter>,
    /// kind of the entries of `waiters` (meaningless when empty)
    pub recv_waiting: bool,
    pub s: u32,
    pub r: u32,
}

#[derive(Clone, Copy, Debug, PartialEq, Eq, Hash, PartialOrd, Ord)]
pub enum FSt {
    Zero,
    Waiting(Wid),
    Done,
}

#[derive(Clone, Copy, Debug, PartialEq, Eq, Hash, PartialOrd, Ord)]
pub enum Fut {
    Empty,
    Send(Tag, FSt),
    Recv(FSt),
    Stream(FSt, bool),
}

#[derive(Clone, Copy, Debug, PartialEq, Eq, Hash, PartialOrd, Ord)]
pub enum Phase {
    Idle,
    /// blocked in the op at `pc`; timed = may expire
    Blocked { wid: Wid, timed: bool },
    /// all ops done, dropping futures / handles one at a time
    Ending,
    Finished,
}

#[derive(Clone, Debug, PartialEq, Eq, Hash, PartialOrd, Ord)]
pub struct Th {
    pub pc: usize,
    pub phase: Phase,
    pub futs: [Fut; 4],
    pub hs: Vec<Flavour>,
    pub hr: Vec<Flavour>,
}

pub type Outcome = Vec<(usize, usize, Res, Option<bool>)>;

#[derive(Clone, Debug, PartialEq, Eq, Hash, PartialOrd, Ord)]
pub struct World {
    pub ch: Chan,
    pub done: Vec<(Wid, Res, Why)>,
    pub th: Vec<Th>,
    pub flags: u32,
    pub wakes: [u32; 2],
    pub results: Outcome,
    /// tags destroyed inside the channel (close / last handle) or on the
    /// sender side after a failed / cancelled send — for fate oracles
    pub destroyed: Vec<Tag>,
}

#[derive(Clone, Copy, Debug)]
pub struct Mode {
    /// other threads exist: a claimed waiter may still read Pending, realtime
    /// ops may find the lock busy
    pub concurrent: bool,
}

enum Begin {
    Done(Res),
    WouldBlock,
}

fn wid_op(t: usize, pc: usize) -> Wid {
    (t * 64 + pc) as Wid
}
fn wid_fut(t: usize, slot: usize) -> Wid {
    (t * 64 + 48 + slot) as Wid
}

impl Chan {
    pub fn new(cap: Cap) -> Chan {
        Chan {
            cap: match cap {
                Cap::B(n) => n as usize,
                Cap::Unbounded => usize::MAX,
                Cap::Big => BIG,
            },
            queue: VecDeque::new(),
            waiters: VecDeque::new(),
            recv_waiting: false,
            s: 1,
            r: 1,
        }
    }
    fn senders_waiting(&self) -> bool {
        !self.recv_waiting && !self.waiters.is_empty()
    }
    fn receivers_waiting(&self) -> bool {
        self.recv_waiting && !self.waiters.is_empty()
    }
}

impl World {
    pub fn new(p: &Program) -> World {
        let mut ch = Chan::new(p.cap);
        let mut th = Vec::new();
        for (i, t) in p.threads.iter().enumerate() {
            // thread 0 owns the constructor's handles; the others get clones
            // made by thread 0 before the threads start (setup)
            let _ = i;
            th.push(Th {
                pc: 0,
                phase: Phase::Idle,
                futs: [Fut::Empty; 4],
                hs: t.s.into_iter().collect(),
                hr: t.r.into_iter().collect(),
            });
        }
        ch.s = p.threads.iter().filter(|t| t.s.is_some()).count() as u32;
        ch.r = p.threads.iter().filter(|t| t.r.is_some()).count() as u32;
        World {
            ch,
            done: Vec::new(),
            th,
            flags: 0,
            wakes: [0; 2],
            results: Vec::new(),
            destroyed: Vec::new(),
        }
    }

    fn wake(&mut self, waker: u8) {
        if (waker as usize) < 2 {
            self.wakes[waker as usize] += 1;
        }
    }

    fn complete(&mut self, w: &Waiter, res: Res, why: Why) {
        self.wake(w.waker);
        self.done.push((w.wid, res, why));
        self.done.sort();
    }

    fn take_done(&mut self, wid: Wid) -> Option<(Res, Why)> {
        let i = self.done.iter().position(|d| d.0 == wid)?;
        let d = self.done.remove(i);
        Some((d.1, d.2))
    }

    fn is_registered(&self, wid: Wid) -> bool {
        self.ch.waiters.iter().any(|w| w.wid == wid)
    }

    fn unregister(&mut self, wid: Wid) -> Option<Waiter> {
        let i = self.ch.waiters.iter().position(|w| w.wid == wid)?;
        self.ch.waiters.remove(i)
    }

    fn terminate_all(&mut self, why: Why) {
        let ws: Vec<Waiter> = self.ch.waiters.drain(..).collect();
        for w in ws {
            self.complete(&w, Res::Err(E::Closed), why);
        }
    }

    fn send_begin(&mut self, tag: Tag) -> Begin {
        if self.ch.r == 0 {
            return Begin::Done(Res::Err(if self.ch.s == 0 {
                E::Closed
            } else {
                E::ReceiveClosed
            }));
        }
        if self.ch.receivers_waiting() {
            let w = self.ch.waiters.pop_front().unwrap();
            self.complete(&w, Res::Val(tag), Why::Peer);
            return Begin::Done(Res::Ok);
        }
        if self.ch.queue.len() < self.ch.cap {
            self.ch.queue.push_back(tag);
            return Begin::Done(Res::Ok);
        }
        Begin::WouldBlock
    }

    fn recv_begin(&mut self) -> Begin {
        if self.ch.r == 0 {
            return Begin::Done(Res::Err(E::Closed));
        }
        if let Some(v) = self.ch.queue.pop_front() {
            if self.ch.senders_waiting() {
                let w = self.ch.waiters.pop_front().unwrap();
                self.ch.queue.push_back(w.tag);
                self.complete(&w, Res::Ok, Why::Peer);
            }
            return Begin::Done(Res::Val(v));
        }
        if self.ch.senders_waiting() {
            let w = self.ch.waiters.pop_front().unwrap();
            self.complete(&w, Res::Ok, Why::Peer);
            return Begin::Done(Res::Val(w.tag));
        }
        if self.ch.s == 0 {
            return Begin::Done(Res::Err(E::SendClosed));
        }
        Begin::WouldBlock
    }

    fn register(&mut self, wid: Wid, tag: Tag, waker: u8, recv: bool) {
        debug_assert!(self.ch.waiters.is_empty() || self.ch.recv_waiting == recv);
        self.ch.recv_waiting = recv;
        self.ch.waiters.push_back(Waiter { wid, tag, waker });
    }

    fn drop_handle(&mut self, side: Side) {
        match side {
            Side::S => {
                if self.ch.s > 0 {
                    self.ch.s -= 1;
                    if self.ch.s == 0 && self.ch.r != 0 {
                        self.terminate_all(Why::Disc);
                    }
                }
            }
            Side::R => {
                if self.ch.r > 0 {
                    self.ch.r -= 1;
                    if self.ch.r == 0 && self.ch.s != 0 {
                        self.terminate_all(Why::Disc);
                    }
                }
            }
        }
    }

    fn push_res(&mut self, t: usize, res: Res, opt: Option<bool>) {
        let pc = self.th[t].pc;
        self.results.push((t, pc, res, opt));
        self.results.sort();
        self.th[t].pc += 1;
        self.th[t].phase = Phase::Idle;
    }

    /// results a waiter released by the last handle of the other side may
    /// report (the statements only ask for "an error")
    fn disc_variants(send_side: bool, res: Res, why: Why) -> Vec<Res> {
        if why == Why::Disc && res == Res::Err(E::Closed) {
            vec![
                Res::Err(E::Closed),
                Res::Err(if send_side { E::ReceiveClosed } else { E::SendClosed }),
            ]
        } else {
            vec![res]
        }
    }

    fn others_unfinished(&self, t: usize) -> bool {
        self.th
            .iter()
            .enumerate()
            .any(|(i, x)| i != t && x.phase != Phase::Finished)
    }

    /// All successor worlds of thread `t` taking one transition.
    pub fn steps(&self, p: &Program, t: usize, mode: Mode) -> Vec<World> {
        // the other threads start only after thread 0's sequential prefix
        let in_prefix = self.th[0].pc < p.pre.min(p.threads[0].ops.len());
        if t != 0 && in_prefix {
            return vec![];
        }
        // while the prefix runs thread 0 is alone: sequential semantics (no
        // peer can be in the middle of anything)
        let mode = if in_prefix { Mode { concurrent: false } } else { mode };
        let th = &self.th[t];
        let ops = &p.threads[t].ops;
        match th.phase {
            Phase::Finished => vec![],
            Phase::Ending => vec![self.end_step(t)],
            Phase::Blocked { wid, timed } => {
                let op = ops[th.pc];
                let mut out = Vec::new();
                if self.done.iter().any(|d| d.0 == wid) {
                    let mut w = self.clone();
                    let (res, why) = w.take_done(wid).unwrap();
                    let send_side = op.is_send_like();
                    for r in Self::disc_variants(send_side, res, why) {
                        let mut w2 = w.clone();
                        w2.finish_blocking(t, op, r);
                        out.push(w2);
                    }
                } else if timed && self.is_registered(wid) {
                    let mut w = self.clone();
                    w.unregister(wid);
                    w.finish_blocking(t, op, Res::Err(E::Timeout));
                    out.push(w);
                }
                out
            }
            Phase::Idle => {
                if th.pc >= ops.len() {
                    let mut w = self.clone();
                    w.th[t].phase = Phase::Ending;
                    return vec![w];
                }
                self.op_steps(p, t, ops[th.pc], mode)
            }
        }
    }

    /// result bookkeeping common to the end of a blocking op
    fn finish_blocking(&mut self, t: usize, op: Op, res: Res) {
        match op {
            Op::StreamNext(slot) => {
                let slot = (slot & !REPOLL) as usize;
                let r = match res {
                    Res::Val(v) => {
                        self.th[t].futs[slot] = Fut::Stream(FSt::Zero, false);
                        Res::Val(v)
                    }
                    _ => {
                        self.th[t].futs[slot] = Fut::Stream(FSt::Done, true);
                        Res::End
                    }
                };
                self.push_res(t, r, None)
            }
            Op::SendOT(_) => {
                let ok = res == Res::Ok;
                self.push_res(t, res, Some(!ok))
            }
            Op::Next => {
                let r = match res {
                    Res::Val(v) => Res::Val(v),
                    _ => Res::NotDone,
                };
                self.push_res(t, r, None)
            }
            _ => self.push_res(t, res, None),
        }
    }

    fn end_step(&self, t: usize) -> World {
        let mut w = self.clone();
        // futures first (slot order), then sender handles (top first), then
        // receiver handles (top first); one atomic transition each
        for slot in 0..4 {
            if w.th[t].futs[slot] != Fut::Empty {
                w.drop_fut(t, slot);
                return w;
            }
        }
        if w.th[t].hs.pop().is_some() {
            w.drop_handle(Side::S);
            return w;
        }
        if w.th[t].hr.pop().is_some() {
            w.drop_handle(Side::R);
            return w;
        }
        w.th[t].phase = Phase::Finished;
        w
    }

    fn drop_fut(&mut self, t: usize, slot: usize) {
        let f = self.th[t].futs[slot];
        self.th[t].futs[slot] = Fut::Empty;
        let st = match f {
            Fut::Send(_, st) | Fut::Recv(st) | Fut::Stream(st, _) => st,
            Fut::Empty => return,
        };
        if let FSt::Waiting(wid) = st {
            if self.unregister(wid).is_none() {
                // a peer (or close) already claimed it: the result stands
                let _ = self.take_done(wid);
            }
        }
    }

    fn op_steps(&self, p: &Program, t: usize, op: Op, mode: Mode) -> Vec<World> {
        let pc = self.th[t].pc;
        let tag = p.tag(t, pc);
        let mut w = self.clone();
        let one = |w: World| vec![w];
        match op {
            Op::SendT(255) | Op::RecvT(255) => {
                // `Instant::now() + Duration::MAX` overflows: the call panics
                // before it touches the channel (not in the properties' input
                // space; it is here so that the panic is seen to be harmless)
                w.push_res(t, Res::Panicked, None);
                one(w)
            }
            Op::SendOT(255) => {
                w.push_res(t, Res::Panicked, Some(true));
                one(w)
            }
            Op::Send | Op::SendRepoll | Op::SendT(_) | Op::SendOT(_) => {
                let opt = matches!(op, Op::SendOT(_));
                match w.send_begin(tag) {
                    Begin::Done(r) => {
                        let ok = r == Res::Ok;
                        w.push_res(t, r, if opt { Some(!ok) } else { None });
                        one(w)
                    }
                    Begin::WouldBlock => {
                        let wid = wid_op(t, pc);
                        let waker = if p_top_flavour(&w.th[t].hs) == Flavour::Async && !op.needs_sync() {
                            2
                        } else {
                            3
                        };
                        w.register(wid, tag, waker, false);
                        w.th[t].phase = Phase::Blocked {
                            wid,
                            timed: matches!(op, Op::SendT(_) | Op::SendOT(_)),
                        };
                        one(w)
                    }
                }
            }
            Op::TrySend | Op::TrySendO | Op::TrySendRt | Op::TrySendORt => {
                let opt = matches!(op, Op::TrySendO | Op::TrySendORt);
                let rt = matches!(op, Op::TrySendRt | Op::TrySendORt);
                let mut out = Vec::new();
                if rt && mode.concurrent && self.others_unfinished(t) {
                    let mut b = self.clone();
                    b.push_res(t, Res::NotDone, if opt { Some(true) } else { None });
                    out.push(b);
                }
                let r = match w.send_begin(tag) {
                    Begin::Done(r) => r,
                    Begin::WouldBlock => Res::NotDone,
                };
                let ok = r == Res::Ok;
                w.push_res(t, r, if opt { Some(!ok) } else { None });
                out.push(w);
                out
            }
            Op::Recv | Op::RecvRepoll | Op::Next => match w.recv_begin() {
                Begin::Done(r) => {
                    w.finish_blocking(t, op, r);
                    one(w)
                }
                Begin::WouldBlock => {
                    let wid = wid_op(t, pc);
                    let waker = if p_top_flavour(&w.th[t].hr) == Flavour::Async && !op.needs_sync() {
                        2
                    } else {
                        3
                    };
                    w.register(wid, 0, waker, true);
                    w.th[t].phase = Phase::Blocked { wid, timed: false };
                    one(w)
                }
            },
            Op::RecvT(_) => match w.recv_begin() {
                Begin::Done(Res::Err(E::SendClosed)) => {
                    // deadline already passed vs. disconnect: either answer
                    let mut a = w.clone();
                    a.push_res(t, Res::Err(E::SendClosed), None);
                    w.push_res(t, Res::Err(E::Timeout), None);
                    vec![a, w]
                }
                Begin::Done(r) => {
                    w.push_res(t, r, None);
                    one(w)
                }
                Begin::WouldBlock => {
                    let mut a = w.clone();
                    a.push_res(t, Res::Err(E::Timeout), None);
                    let wid = wid_op(t, pc);
                    w.register(wid, 0, 3, true);
                    w.th[t].phase = Phase::Blocked { wid, timed: true };
                    vec![a, w]
                }
            },
            Op::TryRecv | Op::TryRecvRt => {
                let mut out = Vec::new();
                if op == Op::TryRecvRt && mode.concurrent && self.others_unfinished(t) {
                    let mut b = self.clone();
                    b.push_res(t, Res::NotDone, None);
                    out.push(b);
                }
                let r = match w.recv_begin() {
                    Begin::Done(r) => r,
                    Begin::WouldBlock => Res::NotDone,
                };
                w.push_res(t, r, None);
                out.push(w);
                out
            }
            Op::Drain(_) => {
                if w.ch.r == 0 {
                    w.push_res(t, Res::Err(E::Closed), None);
                    return one(w);
                }
                let mut vals: Vec<Tag> = w.ch.queue.drain(..).collect();
                if w.ch.senders_waiting() {
                    let ws: Vec<Waiter> = w.ch.waiters.drain(..).collect();
                    for x in ws {
                        vals.push(x.tag);
                        w.complete(&x, Res::Ok, Why::Peer);
                    }
                }
                w.push_res(t, Res::Drained(vals.len() as u32, vals), None);
                one(w)
            }
            Op::FSend(slot) => {
                w.th[t].futs[slot as usize] = Fut::Send(tag, FSt::Zero);
                w.push_res(t, Res::Unit, None);
                one(w)
            }
            Op::FRecv(slot) => {
                w.th[t].futs[slot as usize] = Fut::Recv(FSt::Zero);
                w.push_res(t, Res::Unit, None);
                one(w)
            }
            Op::FStream(slot) => {
                w.th[t].futs[slot as usize] = Fut::Stream(FSt::Zero, false);
                w.push_res(t, Res::Unit, None);
                one(w)
            }
            Op::FDrop(slot) => {
                w.drop_fut(t, slot as usize);
                w.push_res(t, Res::Unit, None);
                one(w)
            }
            Op::Poll(slot, wk) => self.poll_steps(t, slot as usize, wk, mode),
            Op::StreamNext(slot) => {
                let slot = (slot & !REPOLL) as usize;
                match w.th[t].futs[slot] {
                    Fut::Stream(_, true) => {
                        w.push_res(t, Res::End, None);
                        one(w)
                    }
                    Fut::Stream(FSt::Waiting(wid), false) => {
                        // a previous poll left it registered: keep waiting
                        if let Some(i) = w.ch.waiters.iter().position(|x| x.wid == wid) {
                            w.ch.waiters[i].waker = 2;
                        }
                        w.th[t].phase = Phase::Blocked { wid, timed: false };
                        one(w)
                    }
                    Fut::Stream(_, false) => match w.recv_begin() {
                        Begin::Done(r) => {
                            w.finish_blocking(t, op, r);
                            one(w)
                        }
                        Begin::WouldBlock => {
                            let wid = wid_fut(t, slot);
                            w.register(wid, 0, 2, true);
                            w.th[t].futs[slot] = Fut::Stream(FSt::Waiting(wid), false);
                            w.th[t].phase = Phase::Blocked { wid, timed: false };
                            one(w)
                        }
                    },
                    _ => panic!("StreamNext on a slot without stream"),
                }
            }
            Op::Close(_) => {
                if w.ch.s == 0 && w.ch.r == 0 {
                    w.push_res(t, Res::Err(E::AlreadyClosed), None);
                } else {
                    w.ch.s = 0;
                    w.ch.r = 0;
                    w.terminate_all(Why::Close);
                    let q: Vec<Tag> = w.ch.queue.drain(..).collect();
                    w.destroyed.extend(q);
                    w.push_res(t, Res::Ok, None);
                }
                one(w)
            }
            Op::NewHandle(side, conv) => {
                let list = match side {
                    Side::S => &mut w.th[t].hs,
                    Side::R => &mut w.th[t].hr,
                };
                let top = *list.last().expect("NewHandle without a handle");
                let other = if top == Flavour::Sync {
                    Flavour::Async
                } else {
                    Flavour::Sync
                };
                match conv {
                    Conv::Clone => list.push(top),
                    Conv::CloneOther => list.push(other),
                    Conv::ToOther => *list.last_mut().unwrap() = other,
                }
                if conv != Conv::ToOther {
                    match side {
                        Side::S if w.ch.s > 0 => w.ch.s += 1,
                        Side::R if w.ch.r > 0 => w.ch.r += 1,
                        _ => {}
                    }
                }
                w.push_res(t, Res::Ok, None);
                one(w)
            }
            Op::MoveStream(_) => {
                w.push_res(t, Res::Unit, None);
                one(w)
            }
            Op::StreamIsTerm(_) => {
                let b = w.ch.s == 0 && w.ch.queue.is_empty();
                w.push_res(t, Res::Bool(b), None);
                one(w)
            }
            Op::SendNone(_) => {
                w.push_res(t, Res::Panicked, None);
                one(w)
            }
            Op::CloneFrom(side) => {
                let list = match side {
                    Side::S => &mut w.th[t].hs,
                    Side::R => &mut w.th[t].hr,
                };
                let top = *list.last().expect("CloneFrom without a handle");
                list.push(top);
                match side {
                    Side::S if w.ch.s > 0 => w.ch.s += 1,
                    Side::R if w.ch.r > 0 => w.ch.r += 1,
                    _ => {}
                }
                // the overwritten handle was the auxiliary channel's only one
                w.push_res(t, Res::Num(0), None);
                one(w)
            }
            Op::DropHandle(side) | Op::DropHandleUnwinding(side) => {
                let list = match side {
                    Side::S => &mut w.th[t].hs,
                    Side::R => &mut w.th[t].hr,
                };
                list.pop().expect("DropHandle without a handle");
                w.drop_handle(side);
                w.push_res(t, Res::Ok, None);
                one(w)
            }
            Op::Len(_) => {
                let n = w.ch.queue.len() as u64;
                w.push_res(t, Res::Num(n), None);
                one(w)
            }
            Op::IsEmpty(_) => {
                let b = w.ch.queue.is_empty();
                w.push_res(t, Res::Bool(b), None);
                one(w)
            }
            Op::IsFull(_) => {
                let b = w.ch.cap == w.ch.queue.len();
                w.push_res(t, Res::Bool(b), None);
                one(w)
            }
            Op::Cap(_) => {
                let n = if w.ch.cap == usize::MAX {
                    u64::MAX
                } else {
                    w.ch.cap as u64
                };
                w.push_res(t, Res::Num(n), None);
                one(w)
            }
            Op::IsBounded(_) => {
                let b = w.ch.cap != usize::MAX;
                w.push_res(t, Res::Bool(b), None);
                one(w)
            }
            Op::SCount(_) => {
                let n = w.ch.s as u64;
                w.push_res(t, Res::Num(n), None);
                one(w)
            }
            Op::RCount(_) => {
                let n = w.ch.r as u64;
                w.push_res(t, Res::Num(n), None);
                one(w)
            }
            Op::IsClosed(_) => {
                let b = w.ch.s == 0 && w.ch.r == 0;
                w.push_res(t, Res::Bool(b), None);
                one(w)
            }
            Op::IsDisc(side) => {
                let b = match side {
                    Side::S => w.ch.r == 0,
                    Side::R => w.ch.s == 0,
                };
                w.push_res(t, Res::Bool(b), None);
                one(w)
            }
            Op::IsTerm => {
                let b = w.ch.s == 0 && w.ch.queue.is_empty();
                w.push_res(t, Res::Bool(b), None);
                one(w)
            }
            Op::ObsAll => {
                let mut v: Vec<u64> = Vec::new();
                let c = &w.ch;
                let cap = if c.cap == usize::MAX { u64::MAX } else { c.cap as u64 };
                let common = |v: &mut Vec<u64>| {
                    v.push(c.queue.len() as u64);
                    v.push(c.queue.is_empty() as u64);
                    v.push((c.cap == c.queue.len()) as u64);
                    v.push(cap);
                    v.push((c.cap != usize::MAX) as u64);
                    v.push(c.s as u64);
                    v.push(c.r as u64);
                    v.push((c.s == 0 && c.r == 0) as u64);
                };
                if !w.th[t].hs.is_empty() {
                    common(&mut v);
                    v.push((c.r == 0) as u64);
                }
                if !w.th[t].hr.is_empty() {
                    common(&mut v);
                    v.push((c.s == 0) as u64);
                    v.push((c.s == 0 && c.queue.is_empty()) as u64);
                }
                w.push_res(t, Res::ObsVec(v), None);
                one(w)
            }
            Op::LockL => {
                w.push_res(t, Res::Unit, None);
                one(w)
            }
            Op::LockT => {
                // whether the attempt succeeds depends on the other threads
                let mut a = w.clone();
                a.push_res(t, Res::Bool(true), None);
                w.push_res(t, Res::Bool(false), None);
                vec![a, w]
            }
            Op::Set(i) => {
                w.flags |= 1 << i;
                w.push_res(t, Res::Unit, None);
                one(w)
            }
            Op::Wait(i) => {
                if w.flags & (1 << i) != 0 {
                    w.push_res(t, Res::Unit, None);
                    one(w)
                } else {
                    vec![]
                }
            }
        }
    }

    fn poll_steps(&self, t: usize, slot: usize, wk: u8, mode: Mode) -> Vec<World> {
        let mut w = self.clone();
        let f = w.th[t].futs[slot];
        match f {
            Fut::Empty => panic!("Poll on an empty slot"),
            Fut::Send(tag, FSt::Zero) => {
                match w.send_begin(tag) {
                    Begin::Done(r) => {
                        w.th[t].futs[slot] = Fut::Send(tag, FSt::Done);
                        w.push_res(t, r, None);
                    }
                    Begin::WouldBlock => {
                        let wid = wid_fut(t, slot);
                        w.register(wid, tag, wk, false);
                        w.th[t].futs[slot] = Fut::Send(tag, FSt::Waiting(wid));
                        w.push_res(t, Res::Pending, None);
                    }
                }
                vec![w]
            }
            Fut::Recv(FSt::Zero) => {
                match w.recv_begin() {
                    Begin::Done(r) => {
                        w.th[t].futs[slot] = Fut::Recv(FSt::Done);
                        w.push_res(t, r, None);
                    }
                    Begin::WouldBlock => {
                        let wid = wid_fut(t, slot);
                        w.register(wid, 0, wk, true);
                        w.th[t].futs[slot] = Fut::Recv(FSt::Waiting(wid));
                        w.push_res(t, Res::Pending, None);
                    }
                }
                vec![w]
            }
            Fut::Stream(_, true) => {
                w.push_res(t, Res::End, None);
                vec![w]
            }
            Fut::Stream(FSt::Zero, false) | Fut::Stream(FSt::Done, false) => {
                match w.recv_begin() {
                    Begin::Done(Res::Val(v)) => {
                        w.th[t].futs[slot] = Fut::Stream(FSt::Zero, false);
                        w.push_res(t, Res::Val(v), None);
                    }
                    Begin::Done(_) => {
                        w.th[t].futs[slot] = Fut::Stream(FSt::Done, true);
                        w.push_res(t, Res::End, None);
                    }
                    Begin::WouldBlock => {
                        let wid = wid_fut(t, slot);
                        w.register(wid, 0, wk, true);
                        w.th[t].futs[slot] = Fut::Stream(FSt::Waiting(wid), false);
                        w.push_res(t, Res::Pending, None);
                    }
                }
                vec![w]
            }
            Fut::Send(_, FSt::Done) | Fut::Recv(FSt::Done) => {
                w.push_res(t, Res::Panicked, None);
                vec![w]
            }
            Fut::Send(_, FSt::Waiting(wid)) | Fut::Recv(FSt::Waiting(wid)) | Fut::Stream(FSt::Waiting(wid), false) => {
                let mut out = Vec::new();
                if self.done.iter().any(|d| d.0 == wid) {
                    if mode.concurrent {
                        // claimed by a peer that has not finished yet
                        let mut b = self.clone();
                        b.push_res(t, Res::Pending, None);
                        out.push(b);
                    }
                    let (res, why) = w.take_done(wid).unwrap();
                    let send_side = matches!(f, Fut::Send(..));
                    for r in Self::disc_variants(send_side, res, why) {
                        let mut w2 = w.clone();
                        match f {
                            Fut::Send(tag, _) => {
                                w2.th[t].futs[slot] = Fut::Send(tag, FSt::Done);
                                w2.push_res(t, r, None);
                            }
                            Fut::Recv(_) => {
                                w2.th[t].futs[slot] = Fut::Recv(FSt::Done);
                                w2.push_res(t, r, None);
                            }
                            _ => match r {
                                Res::Val(v) => {
                                    w2.th[t].futs[slot] = Fut::Stream(FSt::Zero, false);
                                    w2.push_res(t, Res::Val(v), None);
                                }
                                _ => {
                                    w2.th[t].futs[slot] = Fut::Stream(FSt::Done, true);
                                    w2.push_res(t, Res::End, None);
                                }
                            },
                        }
                        out.push(w2);
                    }
                } else {
                    // still registered: the waker supplied last is the one to wake
                    if let Some(i) = w.ch.waiters.iter().position(|x| x.wid == wid) {
                        w.ch.waiters[i].waker = wk;
                    }
                    w.push_res(t, Res::Pending, None);
                    out.push(w);
                }
                out
            }
        }
    }
}

fn p_top_flavour(list: &[Flavour]) -> Flavour {
    *list.last().expect("operation without a handle of its side")
}

#[derive(Clone, Debug, Default)]
pub struct Explored {
    pub states: u64,
    pub transitions: u64,
    pub outcomes: BTreeSet<Outcome>,
    /// some interleaving leaves a thread blocked forever
    pub can_deadlock: bool,
    pub capped: bool,
}

/// Exhaustive exploration of the product of thread program counters and model.
pub fn explore(p: &Program, max_states: u64) -> Explored {
    let mode = Mode {
        concurrent: p.threads.len() > 1,
    };
    let init = World::new(p);
    let mut seen: HashSet<World> = HashSet::new();
    let mut stack = vec![init.clone()];
    seen.insert(init);
    let mut ex = Explored::default();
    while let Some(w) = stack.pop() {
        ex.states += 1;
        if ex.states > max_states {
            ex.capped = true;
            break;
        }
        let mut any = false;
        for t in 0..p.threads.len() {
            for n in w.steps(p, t, mode) {
                any = true;
                ex.transitions += 1;
                if seen.insert(n.clone()) {
                    stack.push(n);
                }
            }
        }
        if !any {
            if w.th.iter().all(|t| t.phase == Phase::Finished) {
                let mut o = w.results.clone();
                if p.threads.len() == 1 {
                    o.push((999, 0, Res::Num(w.wakes[0] as u64), None));
                    o.push((999, 1, Res::Num(w.wakes[1] as u64), None));
                }
                ex.outcomes.insert(o);
            } else {
                ex.can_deadlock = true;
            }
        }
    }
    ex
}

/// Linearizability of one recorded history against the model: is there a
/// sequence of model transitions that (a) respects every thread's program
/// order, (b) respects real time — if call A returned before call B was
/// invoked, every transition of A precedes every transition of B (the same for
/// the end-of-thread drops) — and (c) gives every call exactly the result the
/// implementation returned?
pub fn linearizable(p: &Program, h: &crate::hist::History) -> Result<(), String> {
    use std::collections::HashMap;
    let n = p.threads.len();
    // observed results and intervals
    let mut obs: HashMap<(usize, usize), (&Res, Option<bool>, u64, u64)> = HashMap::new();
    for c in &h.calls {
        obs.insert((c.thread, c.idx), (&c.res, c.opt_some, c.inv, c.ret));
    }
    let mut tend = vec![(u64::MAX, u64::MAX); n];
    for (t, b, e) in &h.thread_end {
        tend[*t] = (*b, *e);
    }
    // must[u] for a transition starting at stamp s: thread u has to have
    // completed every call that returned before s (and be Finished if its end
    // phase was over before s)
    let required = |s: u64, me: usize| -> Vec<(usize, usize, bool)> {
        // (thread, minimal pc, must be finished)
        let mut v = Vec::new();
        for u in 0..n {
            if u == me {
                continue;
            }
            let mut minpc = 0usize;
            for (j, _) in p.threads[u].ops.iter().enumerate() {
                if let Some(o) = obs.get(&(u, j)) {
                    if o.3 < s {
                        minpc = j + 1;
                    }
                }
            }
            v.push((u, minpc, tend[u].1 < s));
        }
        v
    };
    let mode = Mode {
        concurrent: n > 1,
    };
    let init = World::new(p);
    let mut dead: HashSet<World> = HashSet::new();
    let mut stack = vec![init];
    let mut explored = 0u64;
    while let Some(w) = stack.pop() {
        if w.th.iter().all(|t| t.phase == Phase::Finished) {
            return Ok(());
        }
        if !dead.insert(w.clone()) {
            continue;
        }
        explored += 1;
        if explored > 200_000 {
            return Ok(()); // give up silently: never an alarm from a cap
        }
        for t in 0..n {
            let th = &w.th[t];
            let start = match th.phase {
                Phase::Finished => continue,
                Phase::Ending => tend[t].0,
                _ if th.pc >= p.threads[t].ops.len() => tend[t].0,
                _ => obs.get(&(t, th.pc)).map(|o| o.2).unwrap_or(0),
            };
            let ok = required(start, t).iter().all(|(u, minpc, fin)| {
                let x = &w.th[*u];
                x.pc >= *minpc && (!*fin || x.phase == Phase::Finished)
            });
            if !ok {
                continue;
            }
            for nx in w.steps(p, t, mode) {
                // every result produced so far must be the observed one
                let good = nx.results.iter().all(|(rt, ri, r, o)| match obs.get(&(*rt, *ri)) {
                    Some(x) => x.0 == r && x.1 == *o,
                    None => false,
                });
                if good && !dead.contains(&nx) {
                    stack.push(nx);
                }
            }
        }
    }
    Err(format!(
        "the history is not linearizable: no sequence of atomic steps of the reference channel gives every call the result it returned while respecting real time (a call that returned before another began takes effect first); calls (thread, op, invoked, returned, result): {:?}",
        {
            let mut v: Vec<_> = h.calls.iter().map(|c| (c.thread, format!("{:?}", c.op), c.inv, c.ret, format!("{:?}", c.res))).collect();
            v.sort_by_key(|x| x.2);
            v
        }
    ))
}

/// States the single thread of a sequential program can be in right after its
/// last operation (before the end-of-thread drops), with results dropped and
/// tags renamed in order of appearance: two call sequences that reach the same
/// key are, for the reference model, the same channel state.
pub fn abstract_states_after(p: &Program) -> Vec<World> {
    let mode = Mode { concurrent: false };
    let n = p.threads[0].ops.len();
    let mut out: Vec<World> = Vec::new();
    let mut seen: HashSet<World> = HashSet::new();
    let mut stack = vec![World::new(p)];
    while let Some(w) = stack.pop() {
        if w.th[0].pc >= n && w.th[0].phase == Phase::Idle {
            let k = w.canonical();
            if !out.contains(&k) {
                out.push(k);
            }
            continue;
        }
        for nx in w.steps(p, 0, mode) {
            if seen.insert(nx.clone()) {
                stack.push(nx);
            }
        }
    }
    out
}

impl World {
    /// results / program counter dropped, tags renamed by first appearance
    pub fn canonical(&self) -> World {
        let mut w = self.clone();
        w.results.clear();
        w.destroyed.clear();
        for t in w.th.iter_mut() {
            t.pc = 0;
        }
        let mut map: Vec<Tag> = Vec::new();
        let mut ren = |t: &mut Tag| {
            if *t == 0 {
                return;
            }
            let i = match map.iter().position(|x| x == t) {
                Some(i) => i,
                None => {
                    map.push(*t);
                    map.len() - 1
                }
            };
            *t = 1000 + i as Tag;
        };
        for t in w.ch.queue.iter_mut() {
            ren(t);
        }
        for x in w.ch.waiters.iter_mut() {
            ren(&mut x.tag);
        }
        for d in w.done.iter_mut() {
            if let Res::Val(t) = &mut d.1 {
                ren(t);
            }
        }
        for th in w.th.iter_mut() {
            for f in th.futs.iter_mut() {
                if let Fut::Send(t, _) = f {
                    ren(t);
                }
            }
        }
        w
    }
}
