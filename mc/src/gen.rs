//! Program families.  Every family is a *complete* enumeration of a stated
//! space (threads x ops per thread x alphabet x capacities x classes x
//! environment knobs), filtered to closed (the reference model has no
//! interleaving that leaves a thread blocked forever) and colliding programs.
//! The quick tier uses a smaller space, never a sample of the larger one.

use crate::model;
use crate::oracle::Oracle;
use crate::prog::*;
use crate::runner::{Kind, RunCfg};
use Flavour::{Async as A, Sync as S};

pub struct Suite {
    pub cfg: RunCfg,
    pub programs: Vec<Program>,
    /// description of the space, for the evidence file
    pub rule: String,
}

fn env(par: u8, spin: u8, sp: Option<u8>, preempt: Option<u8>) -> Env {
    Env {
        par,
        spin,
        spurious_park: sp,
        preempt,
        stall: 0,
        lock_spin: 0,
    }
}

/// environment in which the first `n` sleeps/yields of every thread do not
/// let the peer run
fn stalled(mut e: Env, n: u32) -> Env {
    e.stall = n;
    e
}

/// environment in which the first `n` failed lock acquisitions of every thread
/// are retried by the lock's own loop instead of blocking
fn lock_spinning(mut e: Env, n: u32) -> Env {
    e.lock_spin = n;
    e
}

fn cfg(oracles: &[Oracle], kinds: &[Kind], track: bool, nowait: bool) -> RunCfg {
    let mut k: Vec<Kind> = oracles.iter().map(|o| Kind::Oracle(*o)).collect();
    k.extend_from_slice(kinds);
    // a panic inside kanal on a legal program (unwrap on None, unreachable!,
    // garbage read through a dangling waiter ...) means the execution produced
    // no valid result at all: no property holds on it
    if !k.contains(&Kind::Panic) {
        k.push(Kind::Panic);
    }
    RunCfg {
        oracles: oracles.to_vec(),
        kinds: k,
        track,
        nowait,
        max_branches: 3000,
        wall_cap_ms: 120_000,
        model_cap: 2_000_000,
    }
}

/// Which handles a thread needs, from its ops.
fn spec(ops: &[Op], fs: Flavour, fr: Flavour) -> ThreadSpec {
    let needs_s = ops.iter().any(|o| o.side() == Some(Side::S));
    let needs_r = ops.iter().any(|o| o.side() == Some(Side::R));
    ThreadSpec {
        s: needs_s.then_some(fs),
        r: needs_r.then_some(fr),
        ops: ops.to_vec(),
    }
}

fn mk(name: String, cap: Cap, class: Class, ctor: Flavour, via: Conv, threads: Vec<ThreadSpec>, env: Env) -> Program {
    Program {
        name,
        cap,
        class,
        ctor,
        via,
        threads,
        env,
        pre: 0,
    }
}

/// The same programs with thread 0 running `prefix` first, alone (a
/// non-initial channel state: values buffered, the lazily flipped wait-list
/// kind, a cancelled waiter ...)
fn with_prefix(ps: Vec<Program>, prefix: &[Op], tagname: &str) -> Vec<Program> {
    with_prefix_suffix(ps, prefix, &[], tagname)
}

/// ... and `suffix` appended to thread 0 (e.g. a last poll of a future the
/// prefix left pending, so that what it obtained is observed)
fn with_prefix_suffix(ps: Vec<Program>, prefix: &[Op], suffix: &[Op], tagname: &str) -> Vec<Program> {
    ps.into_iter()
        .filter_map(|mut p| {
            let mut ops = prefix.to_vec();
            ops.extend(p.threads[0].ops.iter().copied());
            ops.extend(suffix.iter().copied());
            if !well_formed(&ops) {
                return None;
            }
            // thread 0 needs the handles its prefix uses
            let needs_s = ops.iter().any(|o| o.side() == Some(Side::S));
            let needs_r = ops.iter().any(|o| o.side() == Some(Side::R));
            let fl = p.threads[0].s.or(p.threads[0].r).unwrap_or(S);
            if needs_s && p.threads[0].s.is_none() {
                p.threads[0].s = Some(fl);
            }
            if needs_r && p.threads[0].r.is_none() {
                p.threads[0].r = Some(fl);
            }
            p.threads[0].ops = ops;
            p.pre = prefix.len();
            p.name = format!("{}+pre[{}]", p.name, tagname);
            if closed(&p) {
                Some(p)
            } else {
                None
            }
        })
        .collect()
}

/// The single-op pairs of a medium alphabet started from a standard set of
/// non-initial channel states (built by thread 0 alone before the other thread
/// starts): values buffered, the wait-list kind flag flipped by an earlier
/// receive, cancelled waiters left behind, one or two receivers / a sender
/// still pending (their futures are polled once more at the end).
fn states_family(prefix: &str, class: Class, caps: &[Cap], envs: &[Env], full: bool) -> Vec<Program> {
    let sends: Vec<Op> = if full {
        vec![Op::Send, Op::TrySend, Op::TrySendO, Op::SendT(1), Op::SendOT(1), Op::SendRepoll, Op::Close(Side::S)]
    } else {
        vec![Op::Send, Op::TrySend, Op::SendT(1), Op::Close(Side::S)]
    };
    let recvs: Vec<Op> = if full {
        vec![Op::Recv, Op::TryRecv, Op::TryRecvRt, Op::RecvT(1), Op::Drain(VecState::Spare), Op::Next, Op::RecvRepoll, Op::Close(Side::R)]
    } else {
        vec![Op::Recv, Op::TryRecv, Op::RecvT(1), Op::Drain(VecState::Spare), Op::Close(Side::R)]
    };
    let base = product(
        prefix,
        &[seqs(&sends, 1), seqs(&recvs, 1)],
        caps,
        &[class],
        &sync_only(2),
        &[(S, Conv::Clone)],
        envs,
        false,
    );
    let states: Vec<(&str, Vec<Op>, Vec<Op>)> = vec![
        ("send", vec![Op::TrySend], vec![]),
        ("send,recv", vec![Op::TrySend, Op::TryRecv], vec![]),
        ("2send,recv", vec![Op::TrySend, Op::TrySend, Op::TryRecv], vec![]),
        ("2send,recv,timed", vec![Op::TrySend, Op::TrySend, Op::TryRecv, Op::SendT(0)], vec![]),
        ("2send,recv,otimed", vec![Op::TrySend, Op::TrySend, Op::TryRecv, Op::SendOT(0)], vec![]),
        ("cancelled-recv", vec![Op::FRecv(3), Op::Poll(3, 0), Op::FDrop(3)], vec![]),
        ("cancelled-send", vec![Op::TrySend, Op::TrySend, Op::FSend(3), Op::Poll(3, 0), Op::FDrop(3), Op::TryRecv], vec![]),
        ("pending-recv", vec![Op::FRecv(3), Op::Poll(3, 0)], vec![Op::Poll(3, 0)]),
        ("2pending-recv", vec![Op::FRecv(3), Op::Poll(3, 0), Op::FRecv(2), Op::Poll(2, 1)], vec![Op::Poll(3, 0), Op::Poll(2, 1)]),
        ("full+pending-send", vec![Op::TrySend, Op::TrySend, Op::FSend(3), Op::Poll(3, 0)], vec![Op::Poll(3, 0)]),
        ("full+2pending-send", vec![Op::TrySend, Op::FSend(3), Op::Poll(3, 0), Op::FSend(2), Op::Poll(2, 1)], vec![Op::Poll(3, 0), Op::Poll(2, 1)]),
    ];
    let mut out = Vec::new();
    for (name, pre, suf) in states {
        out.extend(with_prefix_suffix(base.clone(), &pre, &suf, name));
    }
    out
}

fn opname(o: &Op) -> String {
    format!("{:?}", o).replace(' ', "")
}

fn pname(prefix: &str, cap: Cap, class: Class, threads: &[ThreadSpec], e: &Env) -> String {
    let t: Vec<String> = threads
        .iter()
        .map(|t| {
            let f = |x: Option<Flavour>| match x {
                None => "-",
                Some(S) => "s",
                Some(A) => "a",
            };
            format!(
                "{}{}[{}]",
                f(t.s),
                f(t.r),
                t.ops.iter().map(opname).collect::<Vec<_>>().join(",")
            )
        })
        .collect();
    format!(
        "{prefix}/{:?}/{:?}/{}/par{}spin{}sp{:?}pb{:?}{}",
        cap,
        class,
        t.join("|"),
        e.par,
        e.spin,
        e.spurious_park,
        e.preempt,
        match (e.stall, e.lock_spin) {
            (0, 0) => String::new(),
            (s, 0) => format!("stall{s}"),
            (0, l) => format!("lspin{l}"),
            (s, l) => format!("stall{s}lspin{l}"),
        }
    )
}

/// closed (no model interleaving leaves a thread stuck) and within caps
pub fn closed(p: &Program) -> bool {
    let ex = model::explore(p, 300_000);
    !ex.capped && !ex.can_deadlock && !ex.outcomes.is_empty()
}

/// every op sequence of length exactly n over the alphabet
fn seqs(alpha: &[Op], n: usize) -> Vec<Vec<Op>> {
    let mut out: Vec<Vec<Op>> = vec![vec![]];
    for _ in 0..n {
        let mut next = Vec::new();
        for s in &out {
            for o in alpha {
                let mut s2 = s.clone();
                s2.push(*o);
                next.push(s2);
            }
        }
        out = next;
    }
    out
}

/// sequences of length 1..=n
fn seqs_upto(alpha: &[Op], n: usize) -> Vec<Vec<Op>> {
    (1..=n).flat_map(|k| seqs(alpha, k)).collect()
}

fn valid_flavour(ops: &[Op], fs: Flavour, fr: Flavour) -> bool {
    // ops that exist only on one flavour are issued through as_sync/as_async
    // views, so every assignment is valid; scripted futures need slots set up
    let _ = fs;
    // Iterator::next needs `&mut Receiver`: no borrowed view can provide it
    !(fr == A && ops.contains(&Op::Next))
}

/// scripted ops are well formed: Poll/FDrop/StreamNext only on a live slot
fn well_formed(ops: &[Op]) -> bool {
    let mut live = [0u8; 4]; // 0 none, 1 send, 2 recv, 3 stream
    for o in ops {
        match *o {
            Op::FSend(s) => {
                if live[s as usize] != 0 {
                    return false;
                }
                live[s as usize] = 1
            }
            Op::FRecv(s) => {
                if live[s as usize] != 0 {
                    return false;
                }
                live[s as usize] = 2
            }
            Op::FStream(s) => {
                if live[s as usize] != 0 {
                    return false;
                }
                live[s as usize] = 3
            }
            Op::Poll(s, _) => {
                if live[s as usize] == 0 {
                    return false;
                }
            }
            Op::StreamNext(s) => {
                if live[(s & 0x7f) as usize] != 3 {
                    return false;
                }
            }
            Op::FDrop(s) => {
                if live[s as usize] == 0 {
                    return false;
                }
                live[s as usize] = 0
            }
            Op::StreamIsTerm(s) | Op::MoveStream(s) => {
                if live[s as usize] != 3 {
                    return false;
                }
            }
            // a handle that a live future of its own side borrows stays
            Op::NewHandle(side, Conv::ToOther) | Op::DropHandle(side) | Op::DropHandleUnwinding(side) => {
                let borrowed = match side {
                    Side::S => live.iter().any(|x| *x == 1),
                    Side::R => live.iter().any(|x| *x == 2 || *x == 3),
                };
                if borrowed {
                    return false;
                }
            }
            _ => {}
        }
    }
    true
}

/// Operations whose code path depends on the flavour of the handle they are
/// issued through (the others exist identically on both flavours or are
/// reached through a borrowed `as_sync`/`as_async` view, which C09 covers).
fn flavour_sensitive(o: &Op) -> bool {
    matches!(o, Op::Send | Op::Recv | Op::NewHandle(..) | Op::CloneFrom(_) | Op::DropHandle(_) | Op::DropHandleUnwinding(_))
}

/// Drop programs that differ from another one only in the flavour of a thread
/// none of whose operations depends on it.
fn prune_flavours(ps: Vec<Program>) -> Vec<Program> {
    let mut seen = std::collections::HashSet::new();
    let mut out = Vec::new();
    for p in ps {
        let mut canon = p.clone();
        canon.name.clear();
        for t in canon.threads.iter_mut() {
            if !t.ops.iter().any(flavour_sensitive) {
                if t.s.is_some() {
                    t.s = Some(S);
                }
                if t.r.is_some() {
                    t.r = Some(S);
                }
            }
        }
        if seen.insert(canon) {
            out.push(p);
        }
    }
    out
}

pub const CAPS3: [Cap; 3] = [Cap::B(0), Cap::B(1), Cap::Unbounded];
pub const CAPS4: [Cap; 4] = [Cap::B(0), Cap::B(1), Cap::B(2), Cap::Unbounded];

/// The workhorse: all programs with one thread per alphabet, each running a
/// sequence from its list, over caps x classes x flavour assignments x envs.
#[allow(clippy::too_many_arguments)]
fn product(
    prefix: &str,
    per_thread: &[Vec<Vec<Op>>],
    caps: &[Cap],
    classes: &[Class],
    flavours: &[Vec<(Flavour, Flavour)>],
    ctor_via: &[(Flavour, Conv)],
    envs: &[Env],
    need_collision: bool,
) -> Vec<Program> {
    let mut out = Vec::new();
    // cartesian product of per-thread sequences
    let mut combos: Vec<Vec<Vec<Op>>> = vec![vec![]];
    for list in per_thread {
        let mut next = Vec::new();
        for c in &combos {
            for s in list {
                let mut c2 = c.clone();
                c2.push(s.clone());
                next.push(c2);
            }
        }
        combos = next;
    }
    for combo in &combos {
        if !combo.iter().all(|ops| well_formed(ops)) {
            continue;
        }
        if need_collision {
            let any_send = combo.iter().flatten().any(|o| o.is_send_like());
            let any_other = combo
                .iter()
                .flatten()
                .any(|o| o.is_recv_like() || matches!(o, Op::Close(_)));
            if !(any_send && any_other) {
                continue;
            }
        }
        for &cap in caps {
            // closedness does not depend on class / flavour / env: test once
            let probe_threads: Vec<ThreadSpec> = combo.iter().map(|ops| spec(ops, S, S)).collect();
            let probe = mk(
                String::new(),
                cap,
                Class::DL,
                S,
                Conv::Clone,
                probe_threads,
                env(2, 1, None, None),
            );
            if !closed(&probe) {
                continue;
            }
            for fl in flavours {
                if fl.len() != combo.len() {
                    continue;
                }
                if !combo.iter().zip(fl).all(|(ops, (fs, fr))| valid_flavour(ops, *fs, *fr)) {
                    continue;
                }
                let threads: Vec<ThreadSpec> = combo
                    .iter()
                    .zip(fl)
                    .map(|(ops, (fs, fr))| spec(ops, *fs, *fr))
                    .collect();
                for &class in classes {
                    for &(ctor, via) in ctor_via {
                        for e in envs {
                            let name = pname(prefix, cap, class, &threads, e);
                            out.push(mk(name, cap, class, ctor, via, threads.clone(), *e));
                        }
                    }
                }
            }
        }
    }
    out
}

fn all_flavours(n: usize) -> Vec<Vec<(Flavour, Flavour)>> {
    // every {sync, async} assignment of each thread (a thread uses one
    // flavour for both of its handles)
    let mut out: Vec<Vec<(Flavour, Flavour)>> = vec![vec![]];
    for _ in 0..n {
        let mut next = Vec::new();
        for c in &out {
            for f in [S, A] {
                let mut c2 = c.clone();
                c2.push((f, f));
                next.push(c2);
            }
        }
        out = next;
    }
    out
}

fn sync_only(n: usize) -> Vec<Vec<(Flavour, Flavour)>> {
    vec![vec![(S, S); n]]
}

// ---- alphabets
const SEND_CORE: [Op; 4] = [Op::Send, Op::TrySend, Op::SendT(0), Op::SendT(2)];
const RECV_CORE: [Op; 4] = [Op::Recv, Op::TryRecv, Op::RecvT(0), Op::RecvT(2)];
const SEND_FULL: [Op; 9] = [
    Op::Send,
    Op::SendT(0),
    Op::SendT(2),
    Op::SendOT(1),
    Op::TrySend,
    Op::TrySendO,
    Op::TrySendRt,
    Op::TrySendORt,
    Op::SendRepoll,
];
const RECV_FULL: [Op; 8] = [
    Op::Recv,
    Op::RecvT(0),
    Op::RecvT(2),
    Op::TryRecv,
    Op::TryRecvRt,
    Op::Drain(VecState::Spare),
    Op::Next,
    Op::RecvRepoll,
];

fn with(a: &[Op], extra: &[Op]) -> Vec<Op> {
    let mut v = a.to_vec();
    v.extend_from_slice(extra);
    v
}

fn both_pars(spin: u8, preempt: Option<u8>) -> Vec<Env> {
    vec![env(2, spin, None, preempt), env(1, spin, None, preempt)]
}

pub fn suite(check: &str, thorough: bool) -> Suite {
    let mut s = suite_inner(check, thorough);
    if thorough {
        s.cfg.wall_cap_ms = 900_000;
    }
    // the heavy value / memory checks skip flavour assignments that cannot
    // change the code path of any operation (only the Drop impl run at the end
    // of the thread differs, which C06/C09/C10/C11/C12 cover with every
    // assignment)
    if ["C01", "C03", "C04", "C05", "C07", "C13"].contains(&check) {
        s.programs = prune_flavours(s.programs);
    }
    s
}

fn suite_inner(check: &str, thorough: bool) -> Suite {
    match check {
        "C01" => c01(thorough),
        "C02" => c02(thorough),
        "C03" => c03(thorough),
        "C04" => c04(thorough),
        "C05" => c05(thorough),
        "C06" => c06(thorough),
        "C07" => c07(thorough),
        "C08" => c08(thorough),
        "C09" => c09(thorough),
        "C10" => c10(thorough),
        "C11" => c11(thorough),
        "C12" => c12(thorough),
        "C13" => c13(thorough),
        "C14" => c14(thorough),
        "C15" => c15(thorough),
        "C16" => c16(thorough),
        "C17" => c17(thorough),
        "C19" => c19(thorough),
        "C18" => Suite {
            cfg: cfg(&[Oracle::Outcome], &[], false, false),
            programs: vec![],
            rule: String::new(),
        },
        _ => panic!("unknown check {check}"),
    }
}

/// the shared generated space: 2 threads x (<=ka, <=kb) ops
fn core2(prefix: &str, sa: &[Op], ra: &[Op], ka: usize, kb: usize, caps: &[Cap], classes: &[Class], fl: &[Vec<(Flavour, Flavour)>], envs: &[Env]) -> Vec<Program> {
    product(
        prefix,
        &[seqs_upto(sa, ka), seqs_upto(ra, kb)],
        caps,
        classes,
        fl,
        &[(S, Conv::Clone)],
        envs,
        true,
    )
}


/// preemption bound for programs with more than one op per thread
fn pb2(thorough: bool) -> Option<u8> {
    Some(if thorough { 6 } else { 3 })
}
/// preemption bound for programs with 3+ threads
fn pb3(thorough: bool) -> Option<u8> {
    Some(if thorough { 3 } else { 2 })
}
const UNB: Option<u8> = None;

/// all schedules, without and with a spurious return of the first park()
fn unb_sp() -> Vec<Env> {
    vec![env(2, 1, None, UNB), env(2, 1, Some(0), UNB)]
}


/// one producer with three (four) sends against one consumer at small
/// capacities: the refill of the buffer from a blocked sender — which every
/// receive variant implements on its own — races with the producer's next send
fn three_sends(prefix: &str, thorough: bool, class: Class) -> Vec<Program> {
    let firsts = [Op::Recv, Op::TryRecv, Op::TryRecvRt, Op::RecvT(2), Op::Next, Op::RecvRepoll];
    let mut consumers: Vec<Vec<Op>> = Vec::new();
    for x in firsts {
        consumers.push(vec![x, Op::Len(Side::R), Op::Recv]);
        consumers.push(vec![x, x, x]);
    }
    consumers.push(vec![Op::Recv, Op::Drain(VecState::Empty), Op::Recv]);
    consumers.push(vec![Op::Recv, Op::Recv, Op::Recv, Op::Recv]);
    consumers.push(vec![Op::Recv, Op::Drain(VecState::Empty), Op::Drain(VecState::Empty)]);
    consumers.push(vec![Op::FRecv(0), Op::Poll(0, 0), Op::Len(Side::R), Op::TryRecv, Op::TryRecv]);
    product(
        prefix,
        &[
            vec![
                vec![Op::Send, Op::Send, Op::Send],
                vec![Op::Send, Op::Send, Op::TrySend],
                vec![Op::TrySend, Op::Send, Op::Send],
                vec![Op::Send, Op::Send, Op::Send, Op::TrySend],
            ],
            consumers,
        ],
        &[Cap::B(1), Cap::B(2)],
        &[class],
        &[vec![(S, S), (S, S)], vec![(A, A), (S, S)], vec![(S, S), (A, A)]],
        &[(S, Conv::Clone)],
        &[env(2, 1, None, Some(if thorough { 5 } else { 3 }))],
        true,
    )
}

fn c01(thorough: bool) -> Suite {
    let mut ps = Vec::new();
    // 2 threads, full alphabet, (1,1), every flavour assignment, all schedules
    ps.extend(core2(
        "c01-full11",
        &with(&SEND_FULL, &[Op::Close(Side::S)]),
        &with(&RECV_FULL, &[Op::Close(Side::R)]),
        1,
        1,
        if thorough { &CAPS4 } else { &CAPS3 },
        if thorough { &[Class::DL, Class::DP, Class::D4, Class::B1, Class::DZ] } else { &[Class::DL, Class::DP, Class::D4] },
        &all_flavours(2),
        &if thorough { unb_sp() } else { vec![env(2, 1, None, UNB)] },
    ));
    if !thorough {
        // the same with a spurious return of the first park(), one class
        ps.extend(core2(
            "c01-full11-sp",
            &with(&SEND_FULL, &[Op::Close(Side::S)]),
            &with(&RECV_FULL, &[Op::Close(Side::R)]),
            1,
            1,
            &CAPS3,
            &[Class::DL],
            &all_flavours(2),
            &[env(2, 1, Some(0), UNB)],
        ));
    }
    // 2 threads, core alphabet, up to (2,2), preemption-bounded
    ps.extend(core2(
        "c01-core22",
        &with(&SEND_CORE, &[Op::Close(Side::S)]),
        &with(&RECV_CORE, &[Op::Close(Side::R), Op::Drain(VecState::Empty)]),
        2,
        2,
        &CAPS3,
        if thorough { &[Class::DL, Class::DP] } else { &[Class::DL] },
        &sync_only(2),
        &[env(2, 1, None, pb2(thorough))],
    ));
    if thorough {
        // without timed ops the (2,2) space is small enough for all schedules
        ps.extend(core2(
            "c01-core22-all",
            &[Op::Send, Op::TrySend, Op::Close(Side::S)],
            &[Op::Recv, Op::TryRecv, Op::Close(Side::R), Op::Drain(VecState::Empty)],
            2,
            2,
            &CAPS4,
            &[Class::DL],
            &all_flavours(2),
            &[env(2, 1, None, UNB)],
        ));
        ps.extend(core2(
            "c01-full22",
            &with(&SEND_FULL, &[Op::Close(Side::S)]),
            &with(&RECV_FULL, &[Op::Close(Side::R)]),
            2,
            2,
            &CAPS3,
            &[Class::DL],
            &sync_only(2),
            &[env(2, 1, None, Some(3))],
        ));
    }
    if thorough {
        ps.extend(states_family("c01-states", Class::DL, &[Cap::B(0), Cap::B(1), Cap::B(2)], &[env(2, 1, None, Some(4))], true));
        ps.extend(states_family("c01-states", Class::DP, &[Cap::B(1)], &[env(2, 1, None, Some(4))], false));
    } else {
        ps.extend(states_family("c01-states", Class::DL, &[Cap::B(1), Cap::B(2)], &[env(2, 1, None, Some(3))], false));
    }
    // a value handed into a future / stream wait that is then dropped, never
    // polled again, or polled late
    ps.extend(product(
        "c01-futdrop",
        &[
            seqs_upto(&[Op::Send, Op::TrySend, Op::SendT(2)], 2),
            vec![
                vec![Op::FRecv(0), Op::Poll(0, 0), Op::FDrop(0)],
                vec![Op::FRecv(0), Op::Poll(0, 0), Op::TryRecv, Op::Poll(0, 0)],
                vec![Op::FStream(0), Op::Poll(0, 0), Op::FDrop(0), Op::TryRecv],
                vec![Op::FStream(0), Op::Poll(0, 0), Op::Poll(0, 0), Op::Poll(0, 0)],
            ],
        ],
        &[Cap::B(0), Cap::B(1)],
        &[Class::D4, Class::DP, Class::DL],
        &[vec![(S, S), (A, A)]],
        &[(S, Conv::Clone)],
        &[env(2, 1, None, pb2(thorough))],
        true,
    ));
    // 3 threads: two producers + one consumer doing two receives; one
    // producer doing two sends + two consumers
    ps.extend(product(
        "c01-3thr-ppc",
        &[
            seqs(&[Op::Send, Op::TrySend, Op::SendT(1)], 1),
            seqs(&[Op::Send, Op::SendT(1)], 1),
            seqs(&[Op::Recv, Op::TryRecv, Op::RecvT(1), Op::Drain(VecState::Empty)], 2),
        ],
        &CAPS3,
        &[Class::DL],
        &sync_only(3),
        &[(S, Conv::Clone)],
        &[env(2, 1, None, pb3(thorough))],
        true,
    ));
    ps.extend(product(
        "c01-3thr-pcc",
        &[
            seqs(&[Op::Send, Op::TrySend, Op::SendT(1)], 2),
            seqs(&[Op::Recv, Op::RecvT(1)], 1),
            seqs(&[Op::Recv, Op::TryRecv, Op::Close(Side::R)], 1),
        ],
        &CAPS3,
        &[Class::DL],
        &sync_only(3),
        &[(S, Conv::Clone)],
        &[env(2, 1, None, pb3(thorough))],
        true,
    ));
    if thorough {
        // 4 threads: 2 producers, 2 consumers, one op each
        ps.extend(product(
            "c01-4thr",
            &[
                seqs(&[Op::Send, Op::TrySend], 1),
                seqs(&[Op::Send, Op::SendT(1)], 1),
                seqs(&[Op::Recv, Op::TryRecv], 1),
                seqs(&[Op::Recv, Op::RecvT(1), Op::Close(Side::R)], 1),
            ],
            &CAPS3,
            &[Class::DL],
            &sync_only(4),
            &[(S, Conv::Clone)],
            &[env(2, 1, None, Some(2))],
            true,
        ));
    }
    Suite {
        cfg: cfg(&[Oracle::ExactlyOnce], &[], false, false),
        rule: "all closed, colliding programs: 2 threads x (1,1) ops over the full send/receive alphabet x every sync/async assignment (every schedule); 2 threads x <=(2,2) ops over the core alphabet (preemption-bounded: 3 quick, 5 thorough; thorough also every schedule for the untimed alphabet); 3 threads (2 producers+1 consumer, 1 producer+2 consumers; bound 2 quick / 3 thorough), thorough: 4 threads; capacities {0,1,unbounded} (thorough also 2); distinct tags".into(),
        programs: ps,
    }
}

fn c02(thorough: bool) -> Suite {
    let mut ps = Vec::new();
    // one producer sending 2 values through every mix of send kinds, one
    // consumer
    ps.extend(product(
        "c02-1p1c",
        &[
            seqs(&[Op::Send, Op::TrySend, Op::SendT(2)], 2),
            seqs_upto(&[Op::Recv, Op::TryRecv, Op::RecvT(2), Op::Drain(VecState::Empty)], 2),
        ],
        &CAPS4,
        &[Class::P],
        &all_flavours(2),
        &[(S, Conv::Clone)],
        &[env(2, 1, None, pb2(thorough))],
        true,
    ));
    if thorough {
        ps.extend(product(
            "c02-1p1c-3",
            &[
                seqs(&[Op::Send, Op::TrySend], 3),
                seqs(&[Op::Recv, Op::TryRecv, Op::Drain(VecState::Empty)], 3),
            ],
            &CAPS4,
            &[Class::P],
            &sync_only(2),
            &[(S, Conv::Clone)],
            &[env(2, 1, None, Some(4))],
            true,
        ));
        ps.extend(product(
            "c02-1p1c-all",
            &[
                seqs(&[Op::Send, Op::TrySend], 2),
                seqs_upto(&[Op::Recv, Op::TryRecv, Op::Drain(VecState::Empty)], 2),
            ],
            &CAPS4,
            &[Class::P, Class::L],
            &all_flavours(2),
            &[(S, Conv::Clone)],
            &[env(2, 1, None, UNB)],
            true,
        ));
    }
    ps.extend(three_sends("c02-3sends", thorough, Class::P));
    // a pending (non-blocking) sender behind a full buffer, one receive of every
    // kind, then a later send from the same thread: the pending value must
    // still come out first
    {
        let xs = [Op::Recv, Op::TryRecv, Op::TryRecvRt, Op::RecvT(2), Op::RecvRepoll, Op::Drain(VecState::Tight)];
        let mut consumers: Vec<Vec<Op>> = xs
            .iter()
            .map(|x| vec![Op::Wait(0), *x, Op::Set(1), Op::Wait(2), Op::Drain(VecState::Empty), Op::Set(3)])
            .collect();
        consumers.push(vec![Op::Wait(0), Op::FRecv(0), Op::Poll(0, 0), Op::Set(1), Op::Wait(2), Op::Drain(VecState::Empty), Op::Set(3)]);
        ps.extend(product(
            "c02-pending-then-send",
            &[
                vec![
                    vec![Op::TrySend, Op::TrySend, Op::FSend(0), Op::Poll(0, 0), Op::Set(0), Op::Wait(1), Op::TrySend, Op::Set(2), Op::Wait(3)],
                    vec![Op::TrySend, Op::FSend(0), Op::Poll(0, 0), Op::FSend(1), Op::Poll(1, 0), Op::Set(0), Op::Wait(1), Op::TrySend, Op::Set(2), Op::Wait(3)],
                ],
                consumers,
            ],
            &[Cap::B(1), Cap::B(2)],
            &[Class::P],
            &[vec![(A, A), (S, S)], vec![(A, A), (A, A)]],
            &[(S, Conv::Clone)],
            &[env(2, 1, None, UNB)],
            false,
        ));
    }
    // two producers ordered through a flag; consumer receives twice
    ps.extend(product(
        "c02-2p-flag",
        &[
            vec![vec![Op::Send, Op::Set(0)], vec![Op::TrySend, Op::Set(0)], vec![Op::SendT(2), Op::Set(0)]],
            vec![vec![Op::Wait(0), Op::Send], vec![Op::Wait(0), Op::TrySend], vec![Op::Wait(0), Op::SendT(2)]],
            seqs(&[Op::Recv, Op::TryRecv, Op::Drain(VecState::Empty)], 2),
        ],
        &CAPS4,
        &[Class::P],
        &sync_only(3),
        &[(S, Conv::Clone)],
        &[env(2, 1, None, pb3(thorough))],
        true,
    ));
    // pending async senders queued in order, one cancelled (future dropped) or
    // a timed sender expired in between, before the consumer starts
    ps.extend(product(
        "c02-pending-cancel",
        &[
            vec![
                vec![Op::FSend(0), Op::Poll(0, 0), Op::FSend(1), Op::Poll(1, 0), Op::FSend(2), Op::Poll(2, 0), Op::FDrop(1), Op::Set(0), Op::Wait(1)],
                vec![Op::FSend(0), Op::Poll(0, 0), Op::FSend(1), Op::Poll(1, 0), Op::FSend(2), Op::Poll(2, 0), Op::FDrop(0), Op::Set(0), Op::Wait(1)],
                vec![Op::FSend(0), Op::Poll(0, 0), Op::SendT(1), Op::FSend(1), Op::Poll(1, 0), Op::Set(0), Op::Wait(1)],
                vec![Op::FSend(0), Op::Poll(0, 0), Op::FSend(1), Op::Poll(1, 0), Op::Poll(0, 1), Op::Poll(0, 0), Op::Set(0), Op::Wait(1)],
            ],
            vec![
                vec![Op::Wait(0), Op::Recv, Op::Recv, Op::Set(1)],
                vec![Op::Wait(0), Op::Drain(VecState::Empty), Op::Set(1)],
                vec![Op::Wait(0), Op::TryRecv, Op::RecvT(2), Op::Set(1)],
            ],
        ],
        &[Cap::B(0), Cap::B(1)],
        &[Class::P, Class::L],
        &[vec![(A, A), (S, S)], vec![(A, A), (A, A)]],
        &[(S, Conv::Clone)],
        &[env(2, 1, None, UNB)],
        false,
    ));
    // a pending receive that was handed a value and is then cancelled: the
    // value may be lost (documented) but never reappears behind later ones
    ps.extend(product(
        "c02-recv-cancel",
        &[
            vec![
                vec![Op::Wait(0), Op::TrySend, Op::TrySend, Op::TrySend, Op::Set(1)],
                vec![Op::Wait(0), Op::TrySend, Op::Set(1), Op::TrySend, Op::TrySend],
            ],
            vec![
                vec![Op::FRecv(0), Op::Poll(0, 0), Op::Set(0), Op::Wait(1), Op::FDrop(0), Op::TryRecv, Op::TryRecv, Op::TryRecv],
                vec![Op::FRecv(0), Op::Poll(0, 0), Op::Set(0), Op::Wait(1), Op::FDrop(0), Op::Drain(VecState::Empty), Op::TryRecv],
            ],
        ],
        &[Cap::B(1), Cap::B(2), Cap::Unbounded],
        &[Class::P, Class::L],
        &[vec![(S, S), (A, A)], vec![(A, A), (A, A)]],
        &[(S, Conv::Clone)],
        &[env(2, 1, None, pb2(thorough))],
        false,
    ));
    ps.extend(buffer_ring_family("c02-bufring", Class::P));
    // the blocked-sender list has to grow while its ring is wrapped: k served
    // senders, then four pending sends of thread 0 and two blocked senders of
    // other threads (a buffered channel's list starts with room for four);
    // everything is then drained in one go and has to come out in the order
    // of acceptance
    for k in 1..=3usize {
        let mut ops = vec![Op::TrySend];
        for _ in 0..k {
            ops.extend([Op::FSend(3), Op::Poll(3, 0), Op::TryRecv, Op::Poll(3, 0), Op::FDrop(3)]);
        }
        for s in 0..4u8 {
            ops.extend([Op::FSend(s), Op::Poll(s, 0)]);
        }
        let pre = ops.len();
        ops.extend([Op::Wait(0), Op::Wait(1), Op::Drain(VecState::Empty), Op::Drain(VecState::Empty)]);
        let t0 = spec(&ops, A, A);
        let t1 = spec(&[Op::Set(0), Op::SendT(3)], S, S);
        let t2 = spec(&[Op::Set(1), Op::SendT(3)], S, S);
        let mut p = mk(
            format!("c02-grow/B(1)/P/{k}xsend-handover+4|SendT|SendT,drain"),
            Cap::B(1),
            Class::P,
            A,
            Conv::CloneOther,
            vec![t0, t1, t2],
            env(2, 1, None, Some(2)),
        );
        p.pre = pre;
        ps.push(p);
    }
    ps.extend(states_family("c02-states", Class::P, &[Cap::B(1), Cap::B(2)], &[env(2, 1, None, Some(3))], thorough));
    Suite {
        cfg: cfg(&[Oracle::Fifo], &[], false, false),
        rule: "ordered-producer programs: one producer x 2 (thorough 3) sends of every kind x one consumer (recv/try/timed/drain) x capacities {0,1,2,unbounded} x flavour assignments; two producers ordered by a flag; three pending async senders with one cancelled before the consumer starts; a pending receive cancelled after it was handed a value; the single-op pairs from eleven non-initial channel states; preemption-bounded except where noted".into(),
        programs: ps,
    }
}

fn c03(thorough: bool) -> Suite {
    let mut ps = Vec::new();
    let obs_s = [Op::Len(Side::S), Op::IsFull(Side::S), Op::RCount(Side::S), Op::IsClosed(Side::S)];
    let obs_r = [Op::Len(Side::R), Op::IsEmpty(Side::R), Op::SCount(Side::R), Op::IsTerm, Op::IsDisc(Side::R)];
    ps.extend(core2(
        "c03-full11",
        &with(&SEND_FULL, &[Op::Close(Side::S)]),
        &with(&RECV_FULL, &[Op::Close(Side::R)]),
        1,
        1,
        &CAPS4,
        &[Class::P],
        &all_flavours(2),
        &unb_sp(),
    ));
    ps.extend(core2(
        "c03-obs22",
        &with(&with(&[Op::Send, Op::TrySend, Op::SendT(1)], &[Op::Close(Side::S)]), &obs_s),
        &with(&with(&[Op::Recv, Op::TryRecv, Op::Drain(VecState::Empty)], &[Op::Close(Side::R)]), &obs_r),
        2,
        2,
        if thorough { &CAPS4 } else { &CAPS3 },
        &[Class::P],
        &sync_only(2),
        &[env(2, 1, None, pb2(thorough))],
    ));
    ps.extend(states_family(
        "c03-states",
        Class::P,
        &[Cap::B(0), Cap::B(1), Cap::B(2)],
        &[env(2, 1, None, if thorough { UNB } else { Some(4) })],
        thorough,
    ));
    ps.extend(three_sends("c03-3sends", thorough, Class::P));
    // two pending operations of one thread (their order in the wait list is
    // fixed) served by the other thread
    ps.extend(product(
        "c03-two-pending-s",
        &[
            vec![vec![Op::FSend(0), Op::Poll(0, 0), Op::FSend(1), Op::Poll(1, 0), Op::Set(0), Op::Wait(1), Op::Poll(0, 0), Op::Poll(1, 0)]],
            vec![
                vec![Op::Wait(0), Op::Recv, Op::Set(1)],
                vec![Op::Wait(0), Op::TryRecv, Op::TryRecv, Op::Set(1)],
                vec![Op::Wait(0), Op::Drain(VecState::Empty), Op::Set(1)],
                vec![Op::Wait(0), Op::RecvT(1), Op::Len(Side::R), Op::Set(1)],
            ],
        ],
        &[Cap::B(0), Cap::B(1)],
        &[Class::P],
        &[vec![(A, A), (S, S)], vec![(A, A), (A, A)]],
        &[(S, Conv::Clone)],
        &[env(2, 1, None, UNB)],
        false,
    ));
    ps.extend(product(
        "c03-two-pending-r",
        &[
            vec![
                vec![Op::Wait(0), Op::Send, Op::Set(1)],
                vec![Op::Wait(0), Op::TrySend, Op::TrySend, Op::Set(1)],
                vec![Op::Wait(0), Op::SendT(1), Op::Len(Side::S), Op::Set(1)],
            ],
            vec![
                vec![Op::FRecv(0), Op::Poll(0, 0), Op::FRecv(1), Op::Poll(1, 0), Op::Set(0), Op::Wait(1), Op::Poll(0, 0), Op::Poll(1, 0)],
                vec![Op::FRecv(0), Op::Poll(0, 0), Op::FRecv(1), Op::Poll(1, 0), Op::FDrop(0), Op::Set(0), Op::Wait(1), Op::Poll(1, 0)],
                vec![Op::FRecv(0), Op::Poll(0, 0), Op::RecvT(1), Op::Set(0), Op::Wait(1), Op::Poll(0, 0)],
            ],
        ],
        &[Cap::B(0), Cap::B(1)],
        &[Class::P],
        &[vec![(S, S), (A, A)], vec![(A, A), (A, A)]],
        &[(S, Conv::Clone)],
        &[env(2, 1, None, UNB)],
        false,
    ));
    // the stream
    ps.extend(product(
        "c03-stream",
        &[
            seqs_upto(&[Op::Send, Op::TrySend, Op::Close(Side::S)], 2),
            vec![
                vec![Op::FStream(0), Op::StreamNext(0), Op::StreamNext(0), Op::StreamNext(0)],
                vec![Op::FStream(0), Op::Poll(0, 0), Op::StreamNext(0), Op::IsTerm, Op::StreamNext(0)],
            ],
        ],
        &[Cap::B(0), Cap::B(1)],
        &[Class::P],
        &[vec![(S, S), (A, A)], vec![(A, A), (A, A)]],
        &[(S, Conv::Clone)],
        &[env(2, 1, None, pb2(thorough))],
        false,
    ));
    // buffer full + blocked sender + a third party sending while a receive
    // refills the buffer
    ps.extend(product(
        "c03-3thr-refill",
        &[
            seqs(&[Op::Send, Op::TrySend], 2),
            seqs(&[Op::Send], 1),
            vec![vec![Op::Recv, Op::Len(Side::R)], vec![Op::TryRecv, Op::Len(Side::R)], vec![Op::Recv, Op::Recv]],
        ],
        &[Cap::B(1)],
        &[Class::P],
        &sync_only(3),
        &[(S, Conv::Clone)],
        &[env(2, 1, None, pb3(thorough))],
        true,
    ));
    ps.extend(product(
        "c03-3thr",
        &[
            seqs(&[Op::Send, Op::TrySend], 1),
            seqs(&[Op::Send, Op::SendT(1), Op::Close(Side::S), Op::Len(Side::S)], 1),
            seqs(&[Op::Recv, Op::TryRecv, Op::Drain(VecState::Empty), Op::Len(Side::R)], 2),
        ],
        &CAPS3,
        &[Class::P],
        &sync_only(3),
        &[(S, Conv::Clone)],
        &[env(2, 1, None, pb3(thorough))],
        true,
    ));
    Suite {
        cfg: cfg(&[Oracle::Outcome], &[], false, false),
        rule: "generated 2-thread programs over the whole send/receive alphabet plus observers and close, 3-thread programs; the outcome vector of every implementation execution must be in the outcome set of the reference model under all operation-level interleavings".into(),
        programs: ps,
    }
}

fn c05(thorough: bool) -> Suite {
    let mut ps = Vec::new();
    let classes: &[Class] = if thorough {
        &[Class::D4, Class::DP, Class::DL, Class::DZ]
    } else {
        &[Class::DP, Class::DL, Class::DZ]
    };
    ps.extend(core2(
        "c05-full11",
        &with(&SEND_FULL, &[Op::Close(Side::S)]),
        &with(&RECV_FULL, &[Op::Close(Side::R)]),
        1,
        1,
        &CAPS3,
        classes,
        &sync_only(2),
        &unb_sp(),
    ));
    if thorough {
        ps.extend(core2(
            "c05-full22",
            &with(&SEND_FULL, &[Op::Close(Side::S)]),
            &with(&RECV_FULL, &[Op::Close(Side::R)]),
            2,
            2,
            &CAPS3,
            &[Class::DL],
            &sync_only(2),
            &[env(2, 1, None, Some(3))],
        ));
    }
    // async sends with drops at every point
    ps.extend(product(
        "c05-fut",
        &[
            vec![
                vec![Op::FSend(0), Op::FDrop(0)],
                vec![Op::FSend(0), Op::Poll(0, 0), Op::FDrop(0)],
                vec![Op::FSend(0), Op::Poll(0, 0), Op::Poll(0, 1), Op::FDrop(0)],
                vec![Op::FSend(0), Op::Poll(0, 0), Op::Poll(0, 0)],
            ],
            seqs_upto(&[Op::Recv, Op::TryRecv, Op::RecvT(1), Op::Close(Side::R), Op::Drain(VecState::Spare)], 1),
        ],
        &[Cap::B(0), Cap::B(1)],
        classes,
        &[vec![(A, A), (S, S)], vec![(A, A), (A, A)]],
        &[(S, Conv::Clone)],
        &[env(2, 1, None, UNB)],
        false,
    ));
    ps.extend(buffer_ring_family("c05-bufring", Class::DP));
    ps.extend(buffer_ring_family("c05-bufring", Class::DL));
    ps.extend(states_family(
        "c05-states",
        Class::DP,
        &[Cap::B(1), Cap::B(2)],
        &[env(2, 1, None, Some(if thorough { 4 } else { 3 }))],
        thorough,
    ));
    ps.extend(product(
        "c05-futr",
        &[
            seqs_upto(&[Op::Send, Op::TrySend, Op::SendT(2), Op::Close(Side::S)], 1),
            vec![
                vec![Op::FRecv(0), Op::Poll(0, 0), Op::FDrop(0)],
                vec![Op::FRecv(0), Op::Poll(0, 0), Op::Poll(0, 1), Op::FDrop(0)],
                vec![Op::FStream(0), Op::Poll(0, 0), Op::FDrop(0)],
                vec![Op::FRecv(0), Op::FDrop(0), Op::TryRecv],
            ],
        ],
        &[Cap::B(0), Cap::B(1)],
        if thorough { classes } else { &[Class::D4, Class::DP, Class::DL] },
        &[vec![(S, S), (A, A)], vec![(A, A), (A, A)]],
        &[(S, Conv::Clone)],
        &[env(2, 1, None, pb2(thorough))],
        false,
    ));
    Suite {
        cfg: cfg(&[Oracle::DropOnce], &[], false, false),
        rule: "every send variant x every way it can end (buffered, handed off before/after blocking, closed, receive-closed, timeout with won/lost cancel race, refused, future dropped at each point) x receiver variants x droppable payloads; ledger = exactly one destructor run per value at the end of every execution; Option argument Some <=> failure".into(),
        programs: ps,
    }
}

const MEM: [Kind; 3] = [Kind::DataRace, Kind::UseAfterReturn, Kind::Panic];
const STUCK: [Kind; 2] = [Kind::Deadlock, Kind::Livelock];

fn c04(thorough: bool) -> Suite {
    let mut ps = Vec::new();
    let classes = Class::ALL;
    // one value, every class, every waiter kind on either side; the schedule
    // decides which of the three transfer paths is taken
    ps.extend(product(
        "c04-1",
        &[
            seqs(&[Op::Send, Op::SendT(2), Op::SendOT(2), Op::TrySend], 1),
            seqs(&[Op::Recv, Op::RecvT(2), Op::TryRecv, Op::Drain(VecState::Prefilled)], 1),
        ],
        &[Cap::B(0), Cap::B(1)],
        &classes,
        &all_flavours(2),
        &[(S, Conv::Clone)],
        &[env(2, 1, None, UNB)],
        true,
    ));
    // the same with a spurious return of the first park()
    ps.extend(product(
        "c04-1-sp",
        &[
            seqs(&[Op::Send, Op::SendT(2), Op::TrySend], 1),
            seqs(&[Op::Recv, Op::RecvT(2), Op::TryRecv], 1),
        ],
        &[Cap::B(0), Cap::B(1)],
        if thorough { &classes } else { &[Class::Z, Class::B3, Class::P, Class::L, Class::DL] },
        &sync_only(2),
        &[(S, Conv::Clone)],
        &[env(2, 1, Some(0), UNB), env(1, 1, Some(0), UNB)],
        true,
    ));
    // scripted futures polled while the peer is in the middle of the hand-off
    // (no wake-up in between that would order the accesses by itself)
    ps.extend(product(
        "c04-futr",
        &[
            seqs(&[Op::Send, Op::TrySend], 1),
            vec![vec![Op::FRecv(0), Op::Poll(0, 0), Op::Poll(0, 0), Op::Poll(0, 0)]],
        ],
        &[Cap::B(0), Cap::B(1)],
        &classes,
        &[vec![(S, S), (A, A)]],
        &[(S, Conv::Clone)],
        &[env(2, 1, None, Some(if thorough { 6 } else { 4 }))],
        true,
    ));
    ps.extend(product(
        "c04-futs",
        &[
            vec![vec![Op::FSend(0), Op::Poll(0, 0), Op::Poll(0, 0), Op::Poll(0, 0)]],
            seqs(&[Op::Recv, Op::TryRecv], 1),
        ],
        &[Cap::B(0)],
        &classes,
        &[vec![(A, A), (S, S)]],
        &[(S, Conv::Clone)],
        &[env(2, 1, None, Some(if thorough { 6 } else { 4 }))],
        true,
    ));
    // two values: refill of the buffer from a blocked sender
    ps.extend(product(
        "c04-2",
        &[
            seqs(&[Op::Send, Op::SendT(2)], 2),
            seqs(&[Op::Recv, Op::TryRecv], 2),
        ],
        &[Cap::B(1)],
        if thorough { &classes } else { &[Class::B3, Class::P, Class::LP, Class::DL] },
        &[vec![(S, S), (S, S)], vec![(A, A), (S, S)], vec![(S, S), (A, A)]],
        &[(S, Conv::Clone)],
        &[env(2, 1, None, pb2(thorough))],
        true,
    ));
    // a stream across several waits, every item awaited with a fresh waker and
    // re-polled with yet another one while the sender may be in the middle of
    // the hand-off
    ps.extend(product(
        "c04-stream",
        &[
            vec![vec![Op::Send, Op::Send], vec![Op::TrySend, Op::Send]],
            vec![
                vec![Op::FStream(0), Op::StreamNext(REPOLL), Op::StreamNext(REPOLL)],
                vec![Op::FStream(0), Op::StreamNext(0), Op::StreamNext(REPOLL)],
            ],
        ],
        &[Cap::B(0), Cap::B(1)],
        if thorough { &classes } else { &[Class::B3, Class::P, Class::L, Class::DL] },
        &[vec![(S, S), (A, A)], vec![(A, A), (A, A)]],
        &[(S, Conv::Clone)],
        &[env(2, 1, None, Some(if thorough { 4 } else { 3 }))],
        true,
    ));
    // a receiver is already waiting (sync: blocked in another thread, async:
    // a future of thread 0 polled once) when a second receiver drains / tries
    ps.extend(with_prefix_suffix(
        product(
            "c04-waiting-recv",
            &[
                seqs(&[Op::Drain(VecState::Empty), Op::TryRecv, Op::Drain(VecState::Tight)], 1),
                seqs(&[Op::Send, Op::TrySend], 1),
            ],
            &[Cap::B(0), Cap::B(1)],
            if thorough { &classes } else { &[Class::B3, Class::P, Class::L, Class::DL] },
            &[vec![(A, A), (S, S)]],
            &[(S, Conv::Clone)],
            &[env(2, 1, None, Some(4))],
            false,
        ),
        &[Op::FRecv(3), Op::Poll(3, 0)],
        &[Op::Poll(3, 0)],
        "pending-recv",
    ));
    ps.extend(product(
        "c04-blocked-recv",
        &[
            seqs(&[Op::Recv, Op::RecvT(3)], 1),
            seqs(&[Op::Drain(VecState::Empty), Op::Drain(VecState::Tight)], 1),
            seqs(&[Op::Send], 1),
        ],
        &[Cap::B(0), Cap::B(1)],
        if thorough { &classes } else { &[Class::P, Class::DL] },
        &sync_only(3),
        &[(S, Conv::Clone)],
        &[env(2, 1, None, pb3(thorough))],
        false,
    ));
    // the wait ends without a value (close, last sender gone) while the
    // receiver is re-polled with another waker / its deadline passes: nothing
    // may be read out of the never-written slot
    ps.extend(product(
        "c04-no-value",
        &[
            vec![vec![Op::Close(Side::S)], vec![Op::DropHandle(Side::S)], vec![Op::Send, Op::DropHandle(Side::S)]],
            vec![vec![Op::RecvRepoll], vec![Op::RecvT(1)], vec![Op::Recv, Op::TryRecv], vec![Op::FStream(0), Op::StreamNext(REPOLL), Op::StreamNext(REPOLL)]],
        ],
        &[Cap::B(0), Cap::B(1)],
        if thorough { &classes } else { &[Class::B3, Class::P, Class::L, Class::DL] },
        &[vec![(S, S), (A, A)], vec![(A, A), (A, A)], vec![(S, S), (S, S)]],
        &[(S, Conv::Clone)],
        &[env(2, 1, None, Some(if thorough { 4 } else { 3 }))],
        false,
    ));
    let mut k = vec![Kind::DataRace, Kind::UseAfterReturn];
    k.push(Kind::Panic);
    Suite {
        cfg: cfg(&[Oracle::Intact], &k, true, false),
        rule: "payload class (zero-sized, over-aligned zero-sized, 1 byte, 3 bytes padded, pointer-sized, 3 words, 24 bytes padded, droppable twins) x transfer path (buffer / written into a blocked receiver's slot / read out of a blocked sender's slot: decided by the schedule) x waiter kind (sync parked, sync timed, async, a stream across two waits re-polled with changing wakers) x capacity {0,1}; a second receiver draining while the first one waits; waits that end without a value (close / disconnect) under re-polling; received bytes must equal the sent pattern (all bytes distinct), slot accesses must be happens-before ordered".into(),
        programs: ps,
    }
}

/// Hidden state of the wait list: it is a ring buffer whose head moves with
/// every completed hand-over.  `k` hand-overs (k = 0..=17, enough to go round
/// the ring twice), then three waiters of one kind, then the channel is closed
/// or the other side goes away: every waiter has to be released.  Scripted
/// futures of one thread (one execution each); the results are compared with
/// the model's.
fn ring_family(name: &str, closers: bool, droppers: bool) -> Vec<Program> {
    let mut ps = Vec::new();
    let mut ends_r: Vec<Vec<Op>> = Vec::new(); // releases waiting receivers
    let mut ends_s: Vec<Vec<Op>> = Vec::new(); // releases waiting senders
    if closers {
        ends_r.push(vec![Op::Close(Side::S)]);
        ends_s.push(vec![Op::Close(Side::R)]);
    }
    if droppers {
        ends_r.push(vec![Op::DropHandle(Side::S)]);
        ends_s.push(vec![Op::DropHandle(Side::R)]);
    }
    for (cap, k) in (0..=17usize).map(|k| (Cap::B(0), k)).chain((0..=9usize).map(|k| (Cap::B(1), k))) {
        for (recv_side, ends) in [(true, &ends_r), (false, &ends_s)] {
            for end in ends.iter() {
                let mut ops = Vec::new();
                if !recv_side && cap == Cap::B(1) {
                    // senders wait behind a full buffer
                    ops.push(Op::TrySend);
                }
                for _ in 0..k {
                    if recv_side {
                        ops.extend([Op::FRecv(3), Op::Poll(3, 0), Op::TrySend, Op::Poll(3, 0), Op::FDrop(3)]);
                    } else {
                        ops.extend([Op::FSend(3), Op::Poll(3, 0), Op::TryRecv, Op::Poll(3, 0), Op::FDrop(3)]);
                    }
                }
                for s in 0..3u8 {
                    ops.push(if recv_side { Op::FRecv(s) } else { Op::FSend(s) });
                    ops.push(Op::Poll(s, 0));
                }
                ops.extend(end.iter().copied());
                for s in 0..3u8 {
                    ops.push(Op::Poll(s, 0));
                }
                let t = spec(&ops, A, A);
                let e = env(2, 1, None, Some(1));
                let nm = format!(
                    "{name}/{cap:?}/DL/{}x{}+3,{}",
                    k,
                    if recv_side { "recv-handover" } else { "send-handover" },
                    end.iter().map(opname).collect::<Vec<_>>().join(",")
                );
                ps.push(mk(nm, cap, Class::DL, A, Conv::Clone, vec![t], e));
            }
        }
    }
    ps
}

/// Hidden state of the buffer: it, too, is a ring whose head moves with every
/// receive.  `k` send/receive cycles (k = 0..=9), then `n` values buffered (so
/// that they straddle the end of the allocation for some k), then one bulk
/// operation: drain into each vector state, receive them all, close (the
/// values are destroyed by its return), or every handle dropped (destroyed
/// with the channel).  One thread, one execution each; results compared with
/// the model, values accounted for by the drop ledger.
fn buffer_ring_family(name: &str, class: Class) -> Vec<Program> {
    let mut ps = Vec::new();
    for cap in [Cap::B(2), Cap::B(3), Cap::Unbounded] {
        let ns: &[usize] = match cap {
            Cap::B(2) => &[2],
            Cap::B(_) => &[3],
            // (nine values make the buffer grow twice)
            Cap::Unbounded => &[2, 3, 5, 9],
            Cap::Big => &[],
        };
        for &n in ns {
            for k in 0..=9usize {
                let ends: Vec<(&str, Vec<Op>)> = vec![
                    ("drain", vec![Op::Drain(VecState::Empty), Op::TryRecv]),
                    ("drain-tight", vec![Op::Drain(VecState::Tight), Op::TryRecv]),
                    ("drain-prefilled", vec![Op::Drain(VecState::Prefilled)]),
                    ("recv-all", (0..=n).map(|_| Op::TryRecv).collect()),
                    ("close", vec![Op::Close(Side::R), Op::TryRecv]),
                    ("close-s", vec![Op::Close(Side::S), Op::Len(Side::S)]),
                    ("drop-all", vec![Op::Len(Side::R)]),
                    ("next", vec![Op::Next, Op::Drain(VecState::Spare)]),
                ];
                for (en, end) in ends {
                    let mut ops = Vec::new();
                    for _ in 0..k {
                        ops.extend([Op::TrySend, Op::TryRecv]);
                    }
                    for _ in 0..n {
                        ops.push(Op::TrySend);
                    }
                    ops.extend(end);
                    // tags are (index + 1): keep them inside one byte
                    if ops.len() > 60 {
                        continue;
                    }
                    let t = spec(&ops, S, S);
                    ps.push(mk(
                        format!("{name}/{cap:?}/{class:?}/{k}xcycle+{n},{en}"),
                        cap,
                        class,
                        S,
                        Conv::Clone,
                        vec![t],
                        env(2, 1, None, Some(1)),
                    ));
                }
            }
        }
    }
    ps
}

/// The same hidden state with sync waiters: two receivers blocked in other
/// threads while thread 0, after `k` hand-overs to its own scripted futures,
/// drops the only sender / closes.
fn ring_family_blocked(name: &str) -> Vec<Program> {
    let mut ps = Vec::new();
    // six waiters on a buffered channel (its wait list starts with room for
    // four and has to grow): four pending futures of thread 0 and two blocked
    // receivers, after k hand-overs
    for k in [0usize, 1, 2, 3] {
        for end in [Op::DropHandle(Side::S), Op::Close(Side::S)] {
            let mut ops = Vec::new();
            for _ in 0..k {
                ops.extend([Op::FRecv(3), Op::Poll(3, 0), Op::TrySend, Op::Poll(3, 0), Op::FDrop(3)]);
            }
            for s in 0..4u8 {
                ops.extend([Op::FRecv(s), Op::Poll(s, 0)]);
            }
            let pre = ops.len();
            ops.push(end);
            for s in 0..4u8 {
                ops.push(Op::Poll(s, 0));
            }
            let t0 = spec(&ops, A, A);
            let t1 = spec(&[Op::Recv], S, S);
            let t2 = spec(&[Op::Recv], S, S);
            let mut p = mk(
                format!("{name}-grow/B(1)/L/{}xrecv-handover+4|Recv|Recv,{}", k, opname(&end)),
                Cap::B(1),
                Class::L,
                A,
                Conv::CloneOther,
                vec![t0, t1, t2],
                env(2, 1, None, Some(2)),
            );
            p.pre = pre;
            ps.push(p);
        }
    }
    for k in 0..=17usize {
        for end in [Op::DropHandle(Side::S), Op::Close(Side::S)] {
            let mut ops = Vec::new();
            for _ in 0..k {
                ops.extend([Op::FRecv(3), Op::Poll(3, 0), Op::TrySend, Op::Poll(3, 0), Op::FDrop(3)]);
            }
            let pre = ops.len();
            ops.push(end);
            let t0 = spec(&ops, A, A);
            let t1 = spec(&[Op::Recv], S, S);
            let t2 = spec(&[Op::Recv], S, S);
            let mut p = mk(
                format!("{name}/B(0)/L/{}xrecv-handover|Recv|Recv,{}", k, opname(&end)),
                Cap::B(0),
                Class::L,
                A,
                Conv::CloneOther,
                vec![t0, t1, t2],
                env(2, 1, None, Some(2)),
            );
            p.pre = pre;
            ps.push(p);
        }
    }
    ps
}

/// A timed operation with a far deadline whose channel is closed, or whose
/// other side goes away, while it waits: it has to be released by that event.
fn release_family(name: &str, closers: bool, droppers: bool) -> Vec<Program> {
    let mut ps = Vec::new();
    let mut rs: Vec<Vec<Op>> = Vec::new();
    let mut ss: Vec<Vec<Op>> = Vec::new();
    if droppers {
        rs.push(vec![Op::DropHandle(Side::R)]);
        ss.push(vec![Op::DropHandle(Side::S)]);
        ss.push(vec![Op::NewHandle(Side::S, Conv::Clone), Op::DropHandle(Side::S), Op::DropHandle(Side::S)]);
    }
    if closers {
        rs.push(vec![Op::Close(Side::R)]);
        ss.push(vec![Op::Close(Side::S)]);
    }
    for par in [2u8, 1] {
        ps.extend(product(
            &format!("{name}-recv"),
            &[ss.clone(), vec![vec![Op::RecvT(200)]]],
            &[Cap::B(0), Cap::B(1)],
            &[Class::DL],
            &sync_only(2),
            &[(S, Conv::Clone)],
            &[env(par, 1, None, Some(3))],
            false,
        ));
        ps.extend(product(
            &format!("{name}-send"),
            &[vec![vec![Op::SendT(200)], vec![Op::SendOT(200)]], rs.clone()],
            &[Cap::B(0)],
            &[Class::DL],
            &sync_only(2),
            &[(S, Conv::Clone)],
            &[env(par, 1, None, Some(3))],
            false,
        ));
        ps.extend(product(
            &format!("{name}-send-full"),
            &[vec![vec![Op::TrySend, Op::SendT(200)]], rs.clone()],
            &[Cap::B(1)],
            &[Class::DL],
            &sync_only(2),
            &[(S, Conv::Clone)],
            &[env(par, 1, None, Some(3))],
            false,
        ));
    }
    ps
}

fn c06(thorough: bool) -> Suite {
    let mut ps = Vec::new();
    let mut envs = Vec::new();
    for par in [2u8, 1] {
        for sp in [None, Some(0u8), Some(1), Some(2)] {
            envs.push(env(par, 1, sp, UNB));
        }
    }
    if thorough {
        envs.push(env(2, 2, None, UNB));
        envs.push(env(2, 2, Some(0), UNB));
    }
    // every blocking op against every peer that can release it
    ps.extend(product(
        "c06-11",
        &[
            seqs(&[Op::Send, Op::SendT(3), Op::SendRepoll, Op::Len(Side::S), Op::Close(Side::S)], 1),
            seqs(&[Op::Recv, Op::RecvT(3), Op::RecvRepoll, Op::Next, Op::Len(Side::R), Op::Close(Side::R)], 1),
        ],
        &[Cap::B(0), Cap::B(1)],
        &[Class::L],
        &all_flavours(2),
        &[(S, Conv::Clone)],
        &envs,
        false,
    ));
    // handles obtained through conversions before the blocking operation
    let convs = [Conv::Clone, Conv::CloneOther, Conv::ToOther];
    let cs: Vec<Vec<Op>> = convs
        .iter()
        .flat_map(|c| vec![vec![Op::NewHandle(Side::S, *c), Op::Send], vec![Op::NewHandle(Side::S, *c), Op::Len(Side::S)]])
        .collect();
    let cr: Vec<Vec<Op>> = convs
        .iter()
        .flat_map(|c| vec![vec![Op::NewHandle(Side::R, *c), Op::Recv], vec![Op::NewHandle(Side::R, *c), Op::Len(Side::R)]])
        .collect();
    ps.extend(product(
        "c06-conv",
        &[cs, cr],
        &[Cap::B(0)],
        &[Class::L],
        &all_flavours(2),
        &[(S, Conv::Clone)],
        &[env(2, 1, None, pb2(thorough))],
        false,
    ));
    // room made by a receive of any kind must reach the blocked sender: the
    // receiver does nothing further until the sender reports completion
    {
        let xs = [Op::Recv, Op::TryRecv, Op::TryRecvRt, Op::RecvT(2), Op::Next, Op::RecvRepoll, Op::Drain(VecState::Spare)];
        let mut rs: Vec<Vec<Op>> = xs.iter().map(|x| vec![Op::Wait(1), *x, Op::Wait(0)]).collect();
        rs.push(vec![Op::Wait(1), Op::FRecv(0), Op::Poll(0, 0), Op::Wait(0)]);
        rs.push(vec![Op::Wait(1), Op::FStream(0), Op::StreamNext(0), Op::Wait(0)]);
        ps.extend(product(
            "c06-refill",
            &[
                vec![
                    vec![Op::TrySend, Op::Set(1), Op::Send, Op::Set(0)],
                    vec![Op::TrySend, Op::Set(1), Op::SendRepoll, Op::Set(0)],
                    vec![Op::TrySend, Op::TrySend, Op::Set(1), Op::Send, Op::Set(0)],
                ],
                rs,
            ],
            &[Cap::B(1), Cap::B(2)],
            &[Class::L],
            &all_flavours(2),
            &[(S, Conv::Clone)],
            &[env(2, 1, None, pb2(thorough))],
            false,
        ));
    }
    // two waiting receivers (senders), the older one is cancelled, then the
    // counterpart arrives: the remaining waiter must be served
    ps.extend(product(
        "c06-cancel-one-of-two",
        &[
            vec![vec![Op::Wait(0), Op::Send, Op::Set(1)], vec![Op::Wait(0), Op::SendRepoll, Op::Set(1)], vec![Op::Wait(0), Op::SendT(3), Op::Set(1)]],
            vec![
                vec![Op::FRecv(0), Op::Poll(0, 0), Op::FRecv(1), Op::Poll(1, 0), Op::FDrop(0), Op::Set(0), Op::Wait(1), Op::Poll(1, 0)],
                vec![Op::FRecv(0), Op::Poll(0, 0), Op::RecvT(1), Op::Set(0), Op::Wait(1), Op::Poll(0, 0)],
                vec![Op::FRecv(0), Op::Poll(0, 0), Op::FRecv(1), Op::Poll(1, 0), Op::FDrop(1), Op::Set(0), Op::Wait(1), Op::Poll(0, 0)],
            ],
        ],
        &[Cap::B(0), Cap::B(1)],
        &[Class::L],
        &[vec![(S, S), (A, A)], vec![(A, A), (A, A)]],
        &[(S, Conv::Clone)],
        &[env(2, 1, None, UNB)],
        false,
    ));
    ps.extend(product(
        "c06-cancel-one-of-two-s",
        &[
            vec![
                vec![Op::FSend(0), Op::Poll(0, 0), Op::FSend(1), Op::Poll(1, 0), Op::FDrop(0), Op::Set(0), Op::Wait(1), Op::Poll(1, 0)],
                vec![Op::FSend(0), Op::Poll(0, 0), Op::SendT(1), Op::Set(0), Op::Wait(1), Op::Poll(0, 0)],
            ],
            vec![vec![Op::Wait(0), Op::Recv, Op::Set(1)], vec![Op::Wait(0), Op::RecvRepoll, Op::Set(1)], vec![Op::Wait(0), Op::RecvT(3), Op::Set(1)]],
        ],
        &[Cap::B(0)],
        &[Class::L],
        &[vec![(A, A), (S, S)], vec![(A, A), (A, A)]],
        &[(S, Conv::Clone)],
        &[env(2, 1, None, UNB)],
        false,
    ));
    // a pending future re-polled with another waker before the peer has done
    // anything must come back Pending (the peer waits for this thread)
    ps.extend(product(
        "c06-repoll-idle",
        &[
            vec![
                vec![Op::Wait(0), Op::Send, Op::Set(1)],
                vec![Op::Wait(0), Op::TrySend, Op::Set(1)],
                vec![Op::Wait(0), Op::Close(Side::S), Op::Set(1)],
            ],
            vec![
                vec![Op::FRecv(0), Op::Poll(0, 0), Op::Poll(0, 1), Op::Set(0), Op::Wait(1), Op::Poll(0, 1)],
                vec![Op::FStream(0), Op::Poll(0, 0), Op::Poll(0, 1), Op::Set(0), Op::Wait(1), Op::Poll(0, 1)],
                vec![Op::FRecv(0), Op::Poll(0, 0), Op::FRecv(1), Op::Poll(1, 0), Op::Poll(1, 1), Op::Set(0), Op::Wait(1), Op::Poll(0, 0)],
            ],
        ],
        &[Cap::B(0), Cap::B(1)],
        &[Class::L],
        &[vec![(S, S), (A, A)], vec![(A, A), (A, A)]],
        &[(S, Conv::Clone)],
        &[env(2, 1, None, UNB)],
        false,
    ));
    ps.extend(product(
        "c06-repoll-idle-s",
        &[
            vec![
                vec![Op::FSend(0), Op::Poll(0, 0), Op::Poll(0, 1), Op::Set(0), Op::Wait(1), Op::Poll(0, 1)],
                vec![Op::FSend(0), Op::Poll(0, 0), Op::FSend(1), Op::Poll(1, 0), Op::Poll(1, 1), Op::Set(0), Op::Wait(1), Op::Poll(0, 0)],
            ],
            vec![
                vec![Op::Wait(0), Op::Recv, Op::Set(1)],
                vec![Op::Wait(0), Op::TryRecv, Op::Set(1)],
                vec![Op::Wait(0), Op::Close(Side::R), Op::Set(1)],
            ],
        ],
        &[Cap::B(0)],
        &[Class::L],
        &[vec![(A, A), (S, S)], vec![(A, A), (A, A)]],
        &[(S, Conv::Clone)],
        &[env(2, 1, None, UNB)],
        false,
    ));
    // two ops: the second wait of a thread meets stale tokens of the first
    ps.extend(product(
        "c06-22",
        &[
            seqs(&[Op::Send, Op::SendRepoll], 2),
            seqs(&[Op::Recv, Op::RecvRepoll], 2),
        ],
        &[Cap::B(0), Cap::B(1)],
        &[Class::L],
        &all_flavours(2),
        &[(S, Conv::Clone)],
        &[env(2, 1, None, pb2(thorough)), env(2, 1, Some(1), pb2(thorough))],
        false,
    ));
    if thorough {
        // every blocking op twice per thread, all flavours, spurious parks
        ps.extend(product(
            "c06-22-full",
            &[
                seqs(&[Op::Send, Op::SendT(3), Op::SendRepoll, Op::Close(Side::S)], 2),
                seqs(&[Op::Recv, Op::RecvT(3), Op::RecvRepoll, Op::Next], 2),
            ],
            &[Cap::B(0), Cap::B(1)],
            &[Class::L],
            &[vec![(S, S), (S, S)], vec![(A, A), (A, A)], vec![(S, S), (A, A)]],
            &[(S, Conv::Clone)],
            &[env(2, 1, None, Some(4)), env(1, 1, Some(1), Some(4)), env(2, 2, Some(0), Some(4))],
            false,
        ));
        ps.extend(product(
            "c06-4thr",
            &[
                seqs(&[Op::Send, Op::SendT(2)], 1),
                seqs(&[Op::Send, Op::SendRepoll], 1),
                seqs(&[Op::Recv, Op::RecvRepoll], 1),
                seqs(&[Op::Recv, Op::Close(Side::R), Op::Len(Side::R)], 1),
            ],
            &[Cap::B(0), Cap::B(1)],
            &[Class::L],
            &sync_only(4),
            &[(S, Conv::Clone)],
            &[env(2, 1, None, Some(2)), env(2, 1, Some(0), Some(2))],
            false,
        ));
    }
    // stream across several waits
    ps.extend(product(
        "c06-stream",
        &[
            seqs(&[Op::Send, Op::TrySend], 2),
            vec![vec![Op::FStream(0), Op::StreamNext(0), Op::StreamNext(0), Op::StreamNext(0)]],
        ],
        &[Cap::B(0), Cap::B(1)],
        &[Class::L],
        &[vec![(S, S), (A, A)], vec![(A, A), (A, A)]],
        &[(S, Conv::Clone)],
        &[env(2, 1, None, pb2(thorough))],
        false,
    ));
    // 3 threads: waiter, peer, closer / last-handle dropper
    ps.extend(product(
        "c06-3thr",
        &[
            seqs(&[Op::Send, Op::SendT(2)], 1),
            seqs(&[Op::Recv, Op::RecvRepoll, Op::Len(Side::R)], 1),
            seqs(&[Op::Close(Side::R), Op::Recv, Op::Len(Side::S)], 1),
        ],
        &[Cap::B(0)],
        &[Class::L],
        &sync_only(3),
        &[(S, Conv::Clone)],
        &[env(2, 1, None, pb3(thorough)), env(2, 1, Some(0), pb3(thorough))],
        false,
    ));
    // a panicking (None) Option-taking send must not take a blocked receiver
    // out of the wait list
    ps.extend(product(
        "c06-none",
        &[
            vec![vec![Op::SendNone(0), Op::Send], vec![Op::SendNone(1), Op::Send], vec![Op::SendNone(2), Op::Send]],
            vec![vec![Op::Recv], vec![Op::RecvT(3)], vec![Op::RecvRepoll]],
        ],
        &[Cap::B(0), Cap::B(1)],
        &[Class::L],
        &[vec![(S, S), (S, S)], vec![(A, A), (A, A)]],
        &[(S, Conv::Clone)],
        &[env(2, 1, None, Some(3))],
        false,
    ));
    ps.extend(release_family("c06-release", true, true));
    ps.extend(ring_family_blocked("c06-ring"));
    ps.extend(states_family("c06-states", Class::L, &[Cap::B(0), Cap::B(1), Cap::B(2)], &[env(2, 1, None, Some(3))], thorough));
    Suite {
        cfg: cfg(&[Oracle::Released], &STUCK, false, false),
        rule: "every blocking / pending operation against every peer that can release it (value, close, last handle of the other side going away) x spurious park index {none,0,1,2} x reported parallelism {1,2} x sync/async on either side, futures re-polled with a different waker; two-op programs (stale unpark tokens), stream across several waits, 3 threads with a closer; the single-op pairs started from eleven non-initial channel states; timed operations with a far deadline (200 ticks) must be released by the close / disconnect itself and not by their deadline; every execution must terminate: loom reports 'deadlock' when every unfinished thread is blocked, the per-execution step budget catches endless spinning".into(),
        programs: ps,
    }
}

fn c07(thorough: bool) -> Suite {
    let mut ps = Vec::new();
    let classes: &[Class] = if thorough {
        &[Class::L, Class::P, Class::D4, Class::DL]
    } else {
        &[Class::L, Class::DP]
    };
    // hand-offs of every waiter kind
    ps.extend(product(
        "c07-11",
        &[
            seqs(&[Op::Send, Op::SendT(1), Op::SendT(3), Op::SendOT(2), Op::TrySend, Op::SendRepoll, Op::Close(Side::S)], 1),
            seqs(&[Op::Recv, Op::RecvT(1), Op::RecvT(3), Op::TryRecv, Op::Drain(VecState::Spare), Op::RecvRepoll, Op::Close(Side::R)], 1),
        ],
        &[Cap::B(0), Cap::B(1)],
        classes,
        &all_flavours(2),
        &[(S, Conv::Clone)],
        &[env(2, 1, None, UNB)],
        false,
    ));
    // the same hand-offs between sync endpoints with a spurious first park and
    // reported parallelism 1
    ps.extend(product(
        "c07-11-sp",
        &[
            seqs(&[Op::Send, Op::SendT(1), Op::SendT(3), Op::SendOT(2), Op::TrySend, Op::Close(Side::S)], 1),
            seqs(&[Op::Recv, Op::RecvT(1), Op::RecvT(3), Op::TryRecv, Op::Drain(VecState::Spare), Op::Close(Side::R)], 1),
        ],
        &[Cap::B(0), Cap::B(1)],
        classes,
        &if thorough { all_flavours(2) } else { sync_only(2) },
        &[(S, Conv::Clone)],
        &[env(1, 1, Some(0), UNB)],
        false,
    ));
    // scripted futures: waker replacement and drops at every point, racing
    // with the peer
    let fut_s = vec![
        vec![Op::FSend(0), Op::Poll(0, 0), Op::Poll(0, 1), Op::FDrop(0)],
        vec![Op::FSend(0), Op::Poll(0, 0), Op::FDrop(0)],
        vec![Op::FSend(0), Op::Poll(0, 0), Op::Poll(0, 1), Op::Poll(0, 0)],
    ];
    let fut_r = vec![
        vec![Op::FRecv(0), Op::Poll(0, 0), Op::Poll(0, 1), Op::FDrop(0)],
        vec![Op::FRecv(0), Op::Poll(0, 0), Op::FDrop(0)],
        vec![Op::FRecv(0), Op::Poll(0, 0), Op::Poll(0, 1), Op::Poll(0, 0)],
        vec![Op::FStream(0), Op::Poll(0, 0), Op::Poll(0, 1), Op::Poll(0, 0), Op::FDrop(0)],
    ];
    ps.extend(product(
        "c07-futs",
        &[fut_s.clone(), seqs(&[Op::Recv, Op::TryRecv, Op::RecvT(1), Op::Close(Side::R), Op::RecvRepoll], 1)],
        &[Cap::B(0)],
        classes,
        &[vec![(A, A), (S, S)], vec![(A, A), (A, A)]],
        &[(S, Conv::Clone)],
        &[env(2, 1, None, Some(if thorough { 6 } else { 4 }))],
        false,
    ));
    ps.extend(product(
        "c07-futr",
        &[seqs(&[Op::Send, Op::TrySend, Op::SendT(1), Op::Close(Side::S), Op::SendRepoll], 1), fut_r.clone()],
        &[Cap::B(0), Cap::B(1)],
        classes,
        &[vec![(S, S), (A, A)], vec![(A, A), (A, A)]],
        &[(S, Conv::Clone)],
        &[env(2, 1, None, Some(if thorough { 6 } else { 4 }))],
        false,
    ));
    // the peer frozen inside its hand-off while the owner cancels / re-polls:
    // the owner's waits must not give up
    ps.extend(product(
        "c07-stall-r",
        &[
            seqs(&[Op::Send, Op::TrySend], 1),
            vec![
                vec![Op::FRecv(0), Op::Poll(0, 0), Op::Poll(0, 1)],
                vec![Op::FRecv(0), Op::Poll(0, 0), Op::FDrop(0)],
                vec![Op::RecvT(1)],
            ],
        ],
        &[Cap::B(0)],
        &[Class::L, Class::DP],
        &[vec![(S, S), (A, A)]],
        &[(S, Conv::Clone)],
        &[stalled(env(2, 1, None, Some(2)), 14)],
        false,
    ));
    ps.extend(product(
        "c07-stall-s",
        &[
            vec![
                vec![Op::FSend(0), Op::Poll(0, 0), Op::Poll(0, 1)],
                vec![Op::FSend(0), Op::Poll(0, 0), Op::FDrop(0)],
                vec![Op::SendT(1)],
            ],
            seqs(&[Op::Recv, Op::TryRecv], 1),
        ],
        &[Cap::B(0)],
        &[Class::L, Class::DP],
        &[vec![(A, A), (S, S)]],
        &[(S, Conv::Clone)],
        &[stalled(env(2, 1, None, Some(2)), 14)],
        false,
    ));
    // the stream moved between polls (it is Unpin), and timed calls whose
    // deadline computation overflows (they panic; the panic must leave nothing
    // behind)
    ps.extend(product(
        "c07-moved-stream",
        &[
            seqs_upto(&[Op::Send, Op::TrySend], 2),
            vec![
                vec![Op::FStream(0), Op::Poll(0, 0), Op::MoveStream(0), Op::Poll(0, 0), Op::StreamNext(0)],
                vec![Op::FStream(0), Op::Poll(0, 0), Op::MoveStream(0), Op::FDrop(0)],
            ],
        ],
        &[Cap::B(0), Cap::B(1)],
        &[Class::L],
        &[vec![(S, S), (A, A)]],
        &[(S, Conv::Clone)],
        &[env(2, 1, None, pb2(thorough))],
        false,
    ));
    ps.extend(product(
        "c07-overflow",
        &[
            vec![vec![Op::SendT(255), Op::TrySend], vec![Op::SendOT(255)], vec![Op::TrySend, Op::SendT(255)]],
            vec![vec![Op::TryRecv, Op::Recv], vec![Op::RecvT(255), Op::TryRecv], vec![Op::Recv]],
        ],
        &[Cap::B(0), Cap::B(1)],
        &[Class::L, Class::DP],
        &sync_only(2),
        &[(S, Conv::Clone)],
        &[env(2, 1, None, pb2(thorough))],
        false,
    ));
    // 3 threads: waiter + peer + closer / canceller
    ps.extend(product(
        "c07-3thr",
        &[
            seqs(&[Op::Send, Op::SendT(1)], 1),
            seqs(&[Op::Recv, Op::RecvT(1), Op::TryRecv], 1),
            seqs(&[Op::Close(Side::R), Op::Recv, Op::Drain(VecState::Empty)], 1),
        ],
        &[Cap::B(0)],
        &[Class::L],
        &sync_only(3),
        &[(S, Conv::Clone)],
        &[env(2, 1, None, pb3(thorough))],
        false,
    ));
    Suite {
        cfg: cfg(&[], &MEM, true, false),
        rule: "hand-offs of every waiter kind (sync parked, sync timed, async, pending future with waker replacement / drop at every point, stream) against every peer kind and close, payloads larger than / equal to a pointer and droppable; 3 threads with closer; oracle: loom vector-clock check on every tracked access to a waiter's payload cell, pointee slot, thread-handle cell and waker (ordered after publication, before the owner's return), and no access by a peer to a retired waiter".into(),
        programs: ps,
    }
}

fn c08(thorough: bool) -> Suite {
    let mut ps = Vec::new();
    ps.extend(product(
        "c08-p2c1",
        &[
            seqs(&[Op::Send, Op::TrySend, Op::SendT(1), Op::SendRepoll], 2),
            seqs_upto(&[Op::Recv, Op::TryRecv, Op::Drain(VecState::Empty), Op::Len(Side::R), Op::IsFull(Side::R)], 2),
        ],
        &CAPS4,
        &[Class::P],
        &sync_only(2),
        &[(S, Conv::Clone)],
        &[env(2, 1, None, pb2(thorough))],
        true,
    ));
    // a very large bound is a bound all the same: capacity(), is_full() and
    // the admission of sends on bounded(3 000 000)
    for (fl, ctor) in [(S, S), (A, A)] {
        for ops in [
            vec![Op::Cap(Side::S), Op::IsFull(Side::S), Op::TrySend, Op::TrySendRt, Op::Len(Side::R), Op::IsFull(Side::R), Op::Cap(Side::R), Op::TryRecv],
            vec![Op::IsBounded(Side::S), Op::TrySendO, Op::TrySendORt, Op::Send, Op::Drain(VecState::Empty), Op::Cap(Side::R)],
        ] {
            let t = spec(&ops, fl, fl);
            ps.push(mk(
                format!("c08-big/Big/L/{}[{}]", if fl == S { "ss" } else { "aa" }, ops.iter().map(opname).collect::<Vec<_>>().join(",")),
                Cap::Big,
                Class::L,
                ctor,
                Conv::Clone,
                vec![t],
                env(2, 1, None, Some(1)),
            ));
        }
    }
    // an unbounded channel never refuses: 40 values through each non-blocking
    // variant (the buffer's allocation starts at 32 places and has to grow)
    for (fl, ctor) in [(S, S), (A, A)] {
        for v in [Op::TrySend, Op::TrySendO, Op::TrySendRt, Op::TrySendORt] {
            let mut ops = vec![v; 40];
            ops.extend([Op::Len(Side::S), Op::IsFull(Side::S), Op::Drain(VecState::Tight), Op::Len(Side::R)]);
            let t = spec(&ops, fl, fl);
            ps.push(mk(
                format!("c08-many/Unbounded/P/{}[40x{},drain]", if fl == S { "ss" } else { "aa" }, opname(&v)),
                Cap::Unbounded,
                Class::P,
                ctor,
                Conv::Clone,
                vec![t],
                env(2, 1, None, Some(1)),
            ));
        }
    }
    // every non-blocking send variant against a buffer that is exactly full
    ps.extend(product(
        "c08-try",
        &[
            seqs(&[Op::TrySend, Op::TrySendO, Op::TrySendRt, Op::TrySendORt], 2),
            seqs_upto(&[Op::TryRecv, Op::Len(Side::R), Op::IsFull(Side::R)], 2),
        ],
        &[Cap::B(0), Cap::B(1), Cap::B(2)],
        &[Class::P],
        &[vec![(S, S), (S, S)], vec![(A, A), (A, A)]],
        &[(S, Conv::Clone)],
        &[env(2, 1, None, pb2(thorough))],
        false,
    ));
    ps.extend(three_sends("c08-3sends", thorough, Class::P));
    ps.extend(states_family("c08-states", Class::P, &[Cap::B(0), Cap::B(1), Cap::B(2)], &[env(2, 1, None, Some(4))], thorough));
    // zero-sized messages: the buffer's allocation is unbounded for them, only
    // the channel's own capacity holds the sender back
    ps.extend(product(
        "c08-zst",
        &[
            seqs(&[Op::Send, Op::TrySend, Op::SendT(1), Op::TrySendO, Op::SendOT(1)], 2),
            seqs_upto(&[Op::Recv, Op::TryRecv, Op::Len(Side::R)], 2),
        ],
        &[Cap::B(0), Cap::B(1), Cap::B(2)],
        &[Class::Z, Class::DZ],
        &sync_only(2),
        &[(S, Conv::Clone)],
        &[env(2, 1, None, pb2(thorough))],
        true,
    ));
    ps.extend(product(
        "c08-11-sp",
        &[
            seqs(&[Op::Send, Op::SendT(2), Op::TrySend, Op::SendRepoll], 1),
            seqs(&[Op::Recv, Op::RecvT(2), Op::TryRecv, Op::Len(Side::R)], 1),
        ],
        &CAPS4,
        &[Class::P],
        &all_flavours(2),
        &[(S, Conv::Clone)],
        &[env(2, 1, Some(0), UNB), env(1, 1, Some(0), UNB)],
        true,
    ));
    ps.extend(product(
        "c08-p3c1",
        &[
            seqs(&[Op::Send, Op::TrySend], 3),
            seqs_upto(&[Op::Recv, Op::TryRecv, Op::Len(Side::R)], 1),
        ],
        &CAPS4,
        &[Class::P],
        &all_flavours(2),
        &[(S, Conv::Clone)],
        &[env(2, 1, None, pb2(thorough))],
        true,
    ));
    // futures: a pending send does not count as success; cancelled sends
    ps.extend(product(
        "c08-fut",
        &[
            vec![
                vec![Op::TrySend, Op::FSend(0), Op::Poll(0, 0), Op::Len(Side::S), Op::Poll(0, 0)],
                vec![Op::FSend(0), Op::Poll(0, 0), Op::FSend(1), Op::Poll(1, 0), Op::FDrop(0), Op::TrySend],
            ],
            seqs_upto(&[Op::Recv, Op::TryRecv, Op::Drain(VecState::Empty)], 2),
        ],
        &[Cap::B(0), Cap::B(1), Cap::B(2)],
        &[Class::P],
        &[vec![(A, A), (S, S)]],
        &[(S, Conv::Clone)],
        &[env(2, 1, None, pb2(thorough))],
        false,
    ));
    ps.extend(product(
        "c08-3thr",
        &[
            seqs(&[Op::Send, Op::TrySend], 2),
            seqs(&[Op::Send, Op::SendT(1)], 1),
            seqs(&[Op::Recv, Op::TryRecv, Op::Len(Side::R)], 1),
        ],
        &[Cap::B(0), Cap::B(1), Cap::B(2)],
        &[Class::P],
        &sync_only(3),
        &[(S, Conv::Clone)],
        &[env(2, 1, None, pb3(thorough))],
        true,
    ));
    Suite {
        cfg: cfg(&[Oracle::Capacity, Oracle::Outcome, Oracle::Linear], &[], false, false),
        rule: "producers out-numbering consumers by one and two, with blocking, timed, try_ (all four variants, incl. the realtime ones, against an exactly full buffer) and async sends (incl. pending and cancelled futures), receives, drains and len/is_full observers; capacities {0,1,2,unbounded}; history invariant S(t)-R(t)<=n at every successful send's return; refusal exactly when full and nobody waits (outcome set of the reference model)".into(),
        programs: ps,
    }
}

fn c09(thorough: bool) -> Suite {
    let mut ps = Vec::new();
    let ctor_via = [
        (S, Conv::Clone),
        (S, Conv::CloneOther),
        (S, Conv::ToOther),
        (A, Conv::Clone),
        (A, Conv::CloneOther),
        (A, Conv::ToOther),
    ];
    ps.extend(product(
        "c09-core",
        &[
            seqs_upto(&[Op::Send, Op::TrySend, Op::SendRepoll, Op::Close(Side::S)], if thorough { 2 } else { 1 }),
            seqs_upto(&[Op::Recv, Op::TryRecv, Op::RecvRepoll, Op::Drain(VecState::Empty), Op::Close(Side::R)], if thorough { 2 } else { 1 }),
        ],
        &[Cap::B(0), Cap::B(1)],
        &[Class::DL],
        &all_flavours(2),
        &ctor_via,
        &[env(2, 1, None, if thorough { Some(4) } else { UNB })],
        true,
    ));
    // timed operations (issued through borrowed sync views on async handles)
    // and a spurious first park, over two construction routes
    ps.extend(product(
        "c09-timed-sp",
        &[
            seqs(&[Op::Send, Op::SendT(2), Op::TrySend], 1),
            seqs(&[Op::Recv, Op::RecvT(2), Op::TryRecv], 1),
        ],
        &[Cap::B(0), Cap::B(1)],
        &[Class::DL],
        &all_flavours(2),
        &[(S, Conv::CloneOther), (A, Conv::ToOther)],
        &[env(2, 1, None, UNB), env(2, 1, Some(0), UNB)],
        true,
    ));
    ps.extend(product(
        "c09-2sends",
        &[seqs(&[Op::Send, Op::TrySend], 2), seqs(&[Op::Recv, Op::TryRecv], 2)],
        &[Cap::B(0), Cap::B(1)],
        &[Class::DL],
        &all_flavours(2),
        &[(S, Conv::CloneOther), (A, Conv::ToOther)],
        &[env(2, 1, None, pb2(thorough))],
        true,
    ));
    // conversions in the middle of a thread's life, counts observed around them
    ps.extend(product(
        "c09-conv",
        &[
            vec![
                vec![Op::SCount(Side::S), Op::NewHandle(Side::S, Conv::ToOther), Op::SCount(Side::S), Op::Send],
                vec![Op::NewHandle(Side::S, Conv::CloneOther), Op::SCount(Side::S), Op::Send, Op::DropHandle(Side::S), Op::Send],
                vec![Op::NewHandle(Side::S, Conv::Clone), Op::NewHandle(Side::S, Conv::ToOther), Op::Send, Op::SCount(Side::S)],
            ],
            vec![
                vec![Op::RCount(Side::R), Op::NewHandle(Side::R, Conv::ToOther), Op::RCount(Side::R), Op::Recv],
                vec![Op::NewHandle(Side::R, Conv::CloneOther), Op::Recv, Op::DropHandle(Side::R), Op::RCount(Side::R), Op::TryRecv],
            ],
        ],
        &[Cap::B(0), Cap::B(1)],
        &[Class::DL],
        &all_flavours(2),
        &[(S, Conv::Clone), (A, Conv::Clone)],
        &[env(2, 1, None, pb2(thorough))],
        true,
    ));
    // a stream on the async view of either kind of receiver, every item awaited
    // with a different waker, fed by a sync or an async sender
    ps.extend(product(
        "c09-stream",
        &[
            vec![vec![Op::Send, Op::Send], vec![Op::TrySend, Op::Send], vec![Op::Send, Op::Len(Side::S), Op::Send]],
            vec![
                vec![Op::FStream(0), Op::StreamNext(0), Op::StreamNext(0)],
                vec![Op::FStream(0), Op::Poll(0, 0), Op::StreamNext(0), Op::StreamNext(REPOLL)],
            ],
        ],
        &[Cap::B(0), Cap::B(1)],
        &[Class::DL],
        &[vec![(S, S), (A, A)], vec![(A, A), (A, A)]],
        &[(S, Conv::CloneOther), (A, Conv::ToOther), (A, Conv::Clone)],
        &[env(2, 1, None, pb2(thorough))],
        true,
    ));
    Suite {
        cfg: cfg(
            &[Oracle::ExactlyOnce, Oracle::Fifo, Oracle::DropOnce, Oracle::Outcome],
            &STUCK,
            false,
            false,
        ),
        rule: "the core programs instantiated for every {sync, async} assignment of each endpoint, reached through each of bounded/bounded_async + clone, clone_sync/clone_async, to_sync/to_async (and as_sync/as_async borrowed views for operations the handle's own flavour lacks); conversions in the middle of a thread's life with counts observed around them; a stream awaited with a different waker per item; all delivery, order, ownership, model-outcome and progress oracles".into(),
        programs: ps,
    }
}

fn c10(thorough: bool) -> Suite {
    let mut ps = Vec::new();
    // closer thread (close, then operations begun after it returned) against a
    // thread with blocked / buffered / in-flight operations
    ps.extend(product(
        "c10-closer-r",
        &[
            seqs_upto(&[Op::Send, Op::TrySend, Op::SendT(2), Op::SendRepoll, Op::Close(Side::S)], 2),
            vec![
                vec![Op::Close(Side::R)],
                vec![Op::Close(Side::R), Op::TryRecv],
                vec![Op::Close(Side::R), Op::Recv],
                vec![Op::Close(Side::R), Op::RecvT(1)],
                vec![Op::Close(Side::R), Op::Drain(VecState::Spare)],
                vec![Op::Close(Side::R), Op::Len(Side::R), Op::RCount(Side::R), Op::IsClosed(Side::R)],
                vec![Op::Close(Side::R), Op::Close(Side::R)],
                vec![Op::TryRecv, Op::Close(Side::R), Op::Next],
                vec![Op::Close(Side::R), Op::FRecv(0), Op::Poll(0, 0)],
                vec![Op::Close(Side::R), Op::NewHandle(Side::R, Conv::CloneOther), Op::RCount(Side::R), Op::IsClosed(Side::R)],
                vec![Op::Close(Side::R), Op::NewHandle(Side::R, Conv::Clone), Op::RCount(Side::R), Op::TryRecv],
                vec![Op::Close(Side::R), Op::NewHandle(Side::R, Conv::CloneOther), Op::DropHandle(Side::R), Op::SCount(Side::R), Op::Close(Side::R)],
            ],
        ],
        &CAPS3,
        &[Class::DL],
        &all_flavours(2),
        &[(S, Conv::Clone)],
        &[env(2, 1, None, pb2(thorough))],
        false,
    ));
    ps.extend(product(
        "c10-closer-s",
        &[
            vec![
                vec![Op::Close(Side::S), Op::Send],
                vec![Op::Close(Side::S), Op::TrySend],
                vec![Op::Close(Side::S), Op::SendT(1)],
                vec![Op::Close(Side::S), Op::SendOT(1)],
                vec![Op::Close(Side::S), Op::TrySendO],
                vec![Op::TrySend, Op::Close(Side::S), Op::SCount(Side::S), Op::IsDisc(Side::S)],
                vec![Op::Send, Op::Close(Side::S)],
                vec![Op::Close(Side::S), Op::FSend(0), Op::Poll(0, 0)],
                vec![Op::Close(Side::S), Op::NewHandle(Side::S, Conv::CloneOther), Op::SCount(Side::S), Op::TrySend],
                vec![Op::Close(Side::S), Op::NewHandle(Side::S, Conv::Clone), Op::IsClosed(Side::S), Op::DropHandle(Side::S), Op::RCount(Side::S)],
            ],
            seqs_upto(&[Op::Recv, Op::TryRecv, Op::RecvT(2), Op::RecvRepoll, Op::Drain(VecState::Empty), Op::Close(Side::R)], 2),
        ],
        &CAPS3,
        &[Class::DL],
        &all_flavours(2),
        &[(S, Conv::Clone)],
        &[env(2, 1, None, pb2(thorough))],
        false,
    ));
    // async flavours
    ps.extend(product(
        "c10-async",
        &[
            seqs_upto(&[Op::Send, Op::TrySend, Op::Close(Side::S)], 1),
            vec![
                vec![Op::Close(Side::R), Op::Recv],
                vec![Op::FStream(0), Op::Poll(0, 0), Op::Close(Side::R), Op::Poll(0, 0), Op::Poll(0, 0)],
                vec![Op::FRecv(0), Op::Poll(0, 0), Op::Close(Side::R), Op::Poll(0, 0)],
            ],
        ],
        &[Cap::B(0), Cap::B(1)],
        &[Class::DL],
        &[vec![(A, A), (A, A)], vec![(S, S), (A, A)]],
        &[(A, Conv::Clone)],
        &[env(2, 1, None, pb2(thorough))],
        false,
    ));
    // 3 threads: closer + sender + receiver
    ps.extend(product(
        "c10-3thr",
        &[
            seqs(&[Op::Send, Op::TrySend, Op::SendT(1)], 1),
            seqs(&[Op::Recv, Op::TryRecv, Op::RecvT(1)], 1),
            vec![vec![Op::Close(Side::S)], vec![Op::Close(Side::R), Op::TryRecv], vec![Op::Close(Side::S), Op::TrySend]],
        ],
        &[Cap::B(0), Cap::B(1)],
        &[Class::DL],
        &sync_only(3),
        &[(S, Conv::Clone)],
        &[env(2, 1, None, pb3(thorough))],
        false,
    ));
    // buffered plain data (no drop glue) is gone after close, too
    ps.extend(product(
        "c10-plain",
        &[
            vec![vec![Op::TrySend, Op::TrySend, Op::Close(Side::S), Op::Len(Side::S), Op::IsEmpty(Side::S)], vec![Op::TrySend, Op::Set(0)]],
            vec![vec![Op::Close(Side::R), Op::Len(Side::R), Op::IsTerm, Op::TryRecv], vec![Op::Wait(0), Op::Close(Side::R), Op::Len(Side::R), Op::IsEmpty(Side::R)]],
        ],
        &[Cap::B(1), Cap::B(2), Cap::Unbounded],
        &[Class::P, Class::L, Class::B1],
        &[vec![(S, S), (S, S)], vec![(A, A), (A, A)]],
        &[(S, Conv::Clone)],
        &[env(2, 1, None, pb2(thorough))],
        false,
    ));
    // not closed: one side merely went away (or nothing happened at all)
    ps.extend(product(
        "c10-not-closed",
        &[
            vec![vec![Op::TrySend, Op::DropHandle(Side::S)], vec![Op::Len(Side::S)], vec![Op::TrySend, Op::Close(Side::S)]],
            vec![vec![Op::IsClosed(Side::R), Op::TryRecv, Op::IsClosed(Side::R)], vec![Op::IsClosed(Side::R), Op::IsDisc(Side::R), Op::Close(Side::R)]],
        ],
        &[Cap::B(0), Cap::B(1)],
        &[Class::DL],
        &[vec![(S, S), (S, S)], vec![(A, A), (A, A)]],
        &[(S, Conv::Clone)],
        &[env(2, 1, None, pb2(thorough))],
        false,
    ));
    ps.extend(product(
        "c10-not-closed-r",
        &[
            vec![vec![Op::IsClosed(Side::S), Op::TrySend, Op::IsClosed(Side::S)], vec![Op::IsClosed(Side::S), Op::IsDisc(Side::S), Op::Close(Side::S)]],
            vec![vec![Op::TryRecv, Op::DropHandle(Side::R)], vec![Op::Len(Side::R)], vec![Op::Close(Side::R)]],
        ],
        &[Cap::B(0), Cap::B(1)],
        &[Class::DL],
        &[vec![(S, S), (S, S)], vec![(A, A), (A, A)]],
        &[(S, Conv::Clone)],
        &[env(2, 1, None, pb2(thorough))],
        false,
    ));
    ps.extend(release_family("c10-release", true, false));
    ps.extend(ring_family("c10-ring", true, false));
    ps.extend(buffer_ring_family("c10-bufring", Class::DL));
    Suite {
        cfg: cfg(&[Oracle::Close, Oracle::Outcome, Oracle::Linear, Oracle::DropOnce, Oracle::Released], &STUCK, false, false),
        rule: "close issued by either side at any point against blocked / pending / buffered / in-flight operations of every kind, operations begun by the closing thread after close returned, second close, 3 threads; oracle: exactly one close succeeds, everything begun after its return fails Closed (counts 0, no value delivered), buffered values destroyed by close's return, blocked operations released, results in the model's outcome set".into(),
        programs: ps,
    }
}

fn c11(thorough: bool) -> Suite {
    let mut ps = Vec::new();
    // a sender that sends and goes away (explicitly or at thread end), with and
    // without a second handle; receivers draining afterwards
    ps.extend(product(
        "c11-s-goes",
        &[
            vec![
                vec![Op::Send],
                vec![Op::TrySend, Op::TrySend],
                vec![Op::Send, Op::DropHandle(Side::S)],
                vec![Op::NewHandle(Side::S, Conv::Clone), Op::Send, Op::DropHandle(Side::S), Op::TrySend],
                vec![Op::NewHandle(Side::S, Conv::CloneOther), Op::DropHandle(Side::S), Op::Send],
                vec![Op::TrySend, Op::NewHandle(Side::S, Conv::CloneOther), Op::DropHandle(Side::S), Op::SCount(Side::S), Op::TrySend],
                vec![Op::TrySend, Op::DropHandleUnwinding(Side::S)],
                vec![Op::NewHandle(Side::S, Conv::Clone), Op::DropHandleUnwinding(Side::S), Op::Send, Op::DropHandleUnwinding(Side::S)],
                vec![Op::Len(Side::S)],
            ],
            seqs_upto(&[Op::Recv, Op::TryRecv, Op::RecvT(2), Op::Next, Op::IsDisc(Side::R), Op::IsTerm, Op::IsClosed(Side::R), Op::RecvRepoll], 2),
        ],
        &CAPS3,
        &[Class::DL],
        &all_flavours(2),
        &[(S, Conv::Clone)],
        &[env(2, 1, None, pb2(thorough))],
        false,
    ));
    ps.extend(product(
        "c11-r-goes",
        &[
            seqs_upto(&[Op::Send, Op::TrySend, Op::SendT(2), Op::SendOT(2), Op::IsDisc(Side::S), Op::IsClosed(Side::S), Op::SendRepoll], 2),
            vec![
                vec![Op::Len(Side::R)],
                vec![Op::TryRecv],
                vec![Op::Recv, Op::DropHandle(Side::R)],
                vec![Op::NewHandle(Side::R, Conv::Clone), Op::DropHandle(Side::R), Op::TryRecv],
                vec![Op::NewHandle(Side::R, Conv::CloneOther), Op::Recv, Op::DropHandle(Side::R)],
                vec![Op::NewHandle(Side::R, Conv::CloneOther), Op::DropHandle(Side::R), Op::TryRecv, Op::TryRecv],
                vec![Op::TryRecv, Op::NewHandle(Side::R, Conv::Clone), Op::DropHandle(Side::R), Op::RCount(Side::R), Op::TryRecv],
                vec![Op::TryRecv, Op::DropHandleUnwinding(Side::R)],
            ],
        ],
        &CAPS3,
        &[Class::DL],
        &all_flavours(2),
        &[(S, Conv::Clone)],
        &[env(2, 1, None, pb2(thorough))],
        false,
    ));
    ps.extend(product(
        "c11-async",
        &[
            vec![vec![Op::Send], vec![Op::FSend(0), Op::Poll(0, 0)], vec![Op::TrySend, Op::Send]],
            vec![vec![Op::Recv, Op::Recv], vec![Op::FStream(0), Op::StreamNext(0), Op::StreamNext(0), Op::StreamNext(0)], vec![Op::Len(Side::R)]],
        ],
        &[Cap::B(0), Cap::B(1)],
        &[Class::DL],
        &[vec![(A, A), (A, A)]],
        &[(A, Conv::Clone)],
        &[env(2, 1, None, pb2(thorough))],
        false,
    ));
    // 3 threads: two senders leaving at different times, one receiver
    ps.extend(product(
        "c11-3thr",
        &[
            seqs(&[Op::Send, Op::TrySend, Op::Len(Side::S)], 1),
            seqs(&[Op::Send, Op::Len(Side::S)], 1),
            seqs(&[Op::Recv, Op::TryRecv, Op::IsDisc(Side::R)], 2),
        ],
        &[Cap::B(0), Cap::B(1)],
        &[Class::DL],
        &sync_only(3),
        &[(S, Conv::Clone)],
        &[env(2, 1, None, pb3(thorough))],
        false,
    ));
    ps.extend(release_family("c11-release", false, true));
    ps.extend(ring_family("c11-ring", false, true));
    Suite {
        cfg: cfg(&[Oracle::Disconnect, Oracle::Outcome, Oracle::Linear, Oracle::Fifo, Oracle::Released], &STUCK, false, false),
        rule: "clone/drop of handles of both flavours interleaved with blocked, buffered and in-flight operations; capacities {0,1,unbounded}; oracle: a disconnect is never observed while a handle of that side is surely alive, buffered values come first and in order, every blocked operation is released, results in the model's outcome set (the model fails waiters only on the 1->0 transition)".into(),
        programs: ps,
    }
}

fn c12(thorough: bool) -> Suite {
    let mut ps = Vec::new();
    let hs = [
        Op::NewHandle(Side::S, Conv::Clone),
        Op::NewHandle(Side::S, Conv::CloneOther),
        Op::NewHandle(Side::S, Conv::ToOther),
        Op::DropHandle(Side::S),
        Op::SCount(Side::S),
    ];
    let hr = [
        Op::NewHandle(Side::R, Conv::Clone),
        Op::NewHandle(Side::R, Conv::CloneOther),
        Op::NewHandle(Side::R, Conv::ToOther),
        Op::DropHandle(Side::R),
        Op::RCount(Side::R),
        Op::SCount(Side::R),
        Op::Close(Side::R),
    ];
    let n = 2;
    let valid = |ops: &Vec<Op>, side: Side| {
        // never drop the last handle and then use it
        let mut depth = 1i32;
        for o in ops {
            if depth <= 0 {
                return false;
            }
            match o {
                Op::NewHandle(s, c) if *s == side && *c != Conv::ToOther => depth += 1,
                Op::DropHandle(s) if *s == side => depth -= 1,
                _ => {}
            }
        }
        true
    };
    let sa: Vec<Vec<Op>> = seqs_upto(&hs, n).into_iter().filter(|o| valid(o, Side::S)).collect();
    let ra: Vec<Vec<Op>> = seqs_upto(&hr, n).into_iter().filter(|o| valid(o, Side::R)).collect();
    ps.extend(product(
        "c12-conc",
        &[sa, ra],
        &[Cap::B(1)],
        &[Class::P],
        &[vec![(S, S), (S, S)], vec![(A, A), (S, S)]],
        &[(S, Conv::Clone)],
        &[env(2, 1, None, pb2(thorough))],
        false,
    ));
    if thorough {
        // three threads cloning, dropping and closing concurrently
        let one_s: Vec<Vec<Op>> = seqs(&hs, 1).into_iter().filter(|o| valid(o, Side::S)).collect();
        let one_r: Vec<Vec<Op>> = seqs(&hr, 1).into_iter().filter(|o| valid(o, Side::R)).collect();
        let two_s: Vec<Vec<Op>> = seqs(&hs, 2).into_iter().filter(|o| valid(o, Side::S)).collect();
        ps.extend(product(
            "c12-conc3",
            &[two_s, one_s, one_r],
            &[Cap::B(1)],
            &[Class::P],
            &sync_only(3),
            &[(S, Conv::Clone)],
            &[env(2, 1, None, Some(3))],
            false,
        ));
    }
    Suite {
        cfg: cfg(&[Oracle::Counts, Oracle::Outcome, Oracle::Linear], &[], false, false),
        rule: "concurrent clone / clone_sync / clone_async / to_sync / to_async / drop / close with sender_count() / receiver_count() observed at any point, 2 threads x <=2 ops (thorough: plus 3 threads); every observed count must be a count of the reference model under some interleaving (ledger of live handles; 0 after close, never revived)".into(),
        programs: ps,
    }
}

fn c13(thorough: bool) -> Suite {
    let mut ps = Vec::new();
    let ds: &[u8] = if thorough { &[0, 1, 2, 4] } else { &[0, 1, 3] };
    let st: Vec<Op> = ds.iter().flat_map(|d| [Op::SendT(*d), Op::SendOT(*d)]).collect();
    let rt: Vec<Op> = ds.iter().map(|d| Op::RecvT(*d)).collect();
    let mut envs = vec![env(2, 1, None, UNB), env(1, 1, None, UNB)];
    if thorough {
        envs.push(env(2, 2, None, UNB));
        envs.push(env(2, 1, Some(0), UNB));
    }
    ps.extend(product(
        "c13-send",
        &[
            seqs(&st, 1),
            seqs(&[Op::Recv, Op::TryRecv, Op::RecvT(1), Op::Drain(VecState::Spare), Op::RecvRepoll, Op::Close(Side::R), Op::Len(Side::R)], 1),
        ],
        &[Cap::B(0), Cap::B(1)],
        &[Class::D4, Class::DP, Class::DL],
        &[vec![(S, S), (S, S)], vec![(S, S), (A, A)]],
        &[(S, Conv::Clone)],
        &envs,
        false,
    ));
    ps.extend(product(
        "c13-recv",
        &[
            seqs(&[Op::Send, Op::TrySend, Op::SendT(1), Op::SendRepoll, Op::Close(Side::S), Op::Len(Side::S)], 1),
            seqs(&rt, 1),
        ],
        &[Cap::B(0), Cap::B(1)],
        &[Class::D4, Class::DP, Class::DL],
        &[vec![(S, S), (S, S)], vec![(A, A), (S, S)]],
        &[(S, Conv::Clone)],
        &envs,
        false,
    ));
    // a later peer must not be delivered into the timed-out waiter
    ps.extend(product(
        "c13-later-peer",
        &[
            vec![vec![Op::SendT(1), Op::TrySend], vec![Op::SendOT(1), Op::Send], vec![Op::SendT(0), Op::SendT(1)]],
            seqs(&[Op::Recv, Op::TryRecv, Op::RecvT(1)], 2),
        ],
        &[Cap::B(0), Cap::B(1)],
        &[Class::DL],
        &sync_only(2),
        &[(S, Conv::Clone)],
        &[env(2, 1, None, pb2(thorough))],
        false,
    ));
    ps.extend(product(
        "c13-later-peer-r",
        &[
            seqs(&[Op::Send, Op::TrySend, Op::SendT(1)], 2),
            vec![vec![Op::RecvT(1), Op::TryRecv], vec![Op::RecvT(0), Op::Recv], vec![Op::RecvT(1), Op::RecvT(1)]],
        ],
        &[Cap::B(0), Cap::B(1)],
        &[Class::DL],
        &sync_only(2),
        &[(S, Conv::Clone)],
        &[env(2, 1, None, pb2(thorough))],
        false,
    ));
    // a timed operation expiring next to another waiter of the same kind
    ps.extend(product(
        "c13-next-to-waiter",
        &[
            vec![vec![Op::Wait(0), Op::TrySend, Op::Set(1)], vec![Op::Wait(0), Op::Send, Op::Set(1)]],
            vec![
                vec![Op::FRecv(0), Op::Poll(0, 0), Op::RecvT(1), Op::Set(0), Op::Wait(1), Op::Poll(0, 0)],
                vec![Op::FRecv(0), Op::Poll(0, 0), Op::FRecv(1), Op::Poll(1, 0), Op::RecvT(2), Op::Set(0), Op::Wait(1), Op::Poll(0, 0), Op::Poll(1, 0)],
            ],
        ],
        &[Cap::B(0), Cap::B(1)],
        &[Class::DL, Class::DP],
        &[vec![(S, S), (A, A)]],
        &[(S, Conv::Clone)],
        &[env(2, 1, None, UNB)],
        false,
    ));
    ps.extend(product(
        "c13-next-to-waiter-s",
        &[
            vec![
                vec![Op::FSend(0), Op::Poll(0, 0), Op::SendT(1), Op::Set(0), Op::Wait(1), Op::Poll(0, 0)],
                vec![Op::FSend(0), Op::Poll(0, 0), Op::SendOT(2), Op::Set(0), Op::Wait(1), Op::Poll(0, 0)],
            ],
            vec![vec![Op::Wait(0), Op::TryRecv, Op::Set(1)], vec![Op::Wait(0), Op::Recv, Op::TryRecv, Op::Set(1)]],
        ],
        &[Cap::B(0)],
        &[Class::DL, Class::DP],
        &[vec![(A, A), (S, S)]],
        &[(S, Conv::Clone)],
        &[env(2, 1, None, UNB)],
        false,
    ));
    // a timed waiter first in the queue, a pending future behind it, a peer
    // that takes the first one around its deadline
    ps.extend(product(
        "c13-first-of-two",
        &[
            vec![vec![Op::SendT(2)], vec![Op::SendOT(1)]],
            vec![vec![Op::FSend(0), Op::Poll(0, 0), Op::Wait(0), Op::Poll(0, 0)]],
            vec![vec![Op::Recv, Op::Set(0), Op::TryRecv], vec![Op::TryRecv, Op::Set(0), Op::Recv]],
        ],
        &[Cap::B(0)],
        &[Class::DL],
        &[vec![(S, S), (A, A), (S, S)]],
        &[(S, Conv::Clone)],
        &[env(2, 1, None, pb3(thorough))],
        false,
    ));
    ps.extend(product(
        "c13-first-of-two-r",
        &[
            vec![vec![Op::RecvT(2)], vec![Op::RecvT(1)]],
            vec![vec![Op::FRecv(0), Op::Poll(0, 0), Op::Wait(0), Op::Poll(0, 0)]],
            vec![vec![Op::Send, Op::Set(0), Op::TrySend], vec![Op::TrySend, Op::Set(0), Op::Send]],
        ],
        &[Cap::B(0)],
        &[Class::DL],
        &[vec![(S, S), (A, A), (S, S)]],
        &[(S, Conv::Clone)],
        &[env(2, 1, None, pb3(thorough))],
        false,
    ));
    ps.extend(product(
        "c13-3thr",
        &[
            seqs(&[Op::SendT(1), Op::SendOT(2)], 1),
            seqs(&[Op::RecvT(1), Op::Recv], 1),
            seqs(&[Op::Close(Side::R), Op::TryRecv, Op::Len(Side::S)], 1),
        ],
        &[Cap::B(0)],
        &[Class::DL],
        &sync_only(3),
        &[(S, Conv::Clone)],
        &[env(2, 1, None, pb3(thorough))],
        false,
    ));
    // nobody completes the operation; another thread merely looks at the
    // channel (and holds its lock for a moment) while the deadline passes
    ps.extend(product(
        "c13-observer",
        &[
            vec![
                vec![Op::SendT(1), Op::Set(0)],
                vec![Op::SendOT(1), Op::Set(0)],
                vec![Op::SendT(0), Op::Set(0)],
                vec![Op::SendOT(0), Op::Set(0)],
                vec![Op::TrySend, Op::SendOT(1), Op::Set(0)],
            ],
            // (the observer keeps its handle until the timed call has returned)
            vec![
                vec![Op::Len(Side::R), Op::Wait(0)],
                vec![Op::IsFull(Side::R), Op::SCount(Side::R), Op::Wait(0)],
                vec![Op::NewHandle(Side::R, Conv::Clone), Op::Len(Side::R), Op::Wait(0)],
            ],
        ],
        &[Cap::B(0), Cap::B(1)],
        &[Class::DL],
        &sync_only(2),
        &[(S, Conv::Clone)],
        &[env(2, 1, None, Some(4)), env(1, 1, None, Some(4))],
        false,
    ));
    ps.extend(product(
        "c13-observer-r",
        &[
            vec![
                vec![Op::Len(Side::S), Op::Wait(0)],
                vec![Op::IsEmpty(Side::S), Op::RCount(Side::S), Op::Wait(0)],
                vec![Op::NewHandle(Side::S, Conv::Clone), Op::Len(Side::S), Op::Wait(0)],
            ],
            vec![vec![Op::RecvT(1), Op::Set(0)], vec![Op::RecvT(0), Op::Set(0)], vec![Op::RecvT(2), Op::Set(0)]],
        ],
        &[Cap::B(0), Cap::B(1)],
        &[Class::DL],
        &sync_only(2),
        &[(S, Conv::Clone)],
        &[env(2, 1, None, Some(4)), env(1, 1, None, Some(4))],
        false,
    ));
    ps.extend(release_family("c13-release", true, true));
    ps.extend(states_family("c13-states", Class::DL, &[Cap::B(1), Cap::B(2)], &[env(2, 1, None, Some(3))], thorough));
    let mut k = vec![Kind::UseAfterReturn, Kind::DataRace, Kind::Panic];
    k.extend_from_slice(&STUCK);
    Suite {
        cfg: cfg(&[Oracle::Timed, Oracle::ExactlyOnce, Oracle::Outcome, Oracle::Released], &k, true, false),
        rule: "each timed operation (send_timeout, send_option_timeout, recv_timeout; durations of 0..4 virtual ticks) against a peer that arrives, hands off, closes or disconnects at any point, reported parallelism {1,2}, droppable payloads; a later peer after the timeout; 3 threads; a mere observer holding the lock while the deadline passes; a far deadline (200 ticks) with a peer that closes or leaves; the single-op pairs started from eleven non-initial channel states; oracle: a closed / disconnected error is reported before the far deadline, exactly one of success/timeout/closed, timeout never before the deadline on the virtual clock, value moved exactly once or not at all (ledger, Option), nothing left behind (no access to the retired waiter, later operations per the model), every execution terminates".into(),
        programs: ps,
    }
}

fn c14(thorough: bool) -> Suite {
    let mut ps = Vec::new();
    let try_s = [Op::TrySend, Op::TrySendO, Op::TrySendRt, Op::TrySendORt];
    let try_r = [Op::TryRecv, Op::TryRecvRt, Op::Drain(VecState::Spare)];
    // the peer is in the middle of each of its operations (loom preempts it at
    // every point, including while it holds the lock)
    ps.extend(product(
        "c14-s",
        &[
            seqs_upto(&try_s, if thorough { 2 } else { 1 }),
            seqs_upto(&[Op::Recv, Op::RecvT(2), Op::TryRecv, Op::RecvRepoll, Op::Close(Side::R), Op::Len(Side::R), Op::Drain(VecState::Empty)], 2),
        ],
        &CAPS3,
        &[Class::DL],
        &[vec![(S, S), (S, S)], vec![(A, A), (A, A)]],
        &[(S, Conv::Clone)],
        &[env(2, 1, None, pb2(thorough)), env(1, 1, None, pb2(thorough))],
        false,
    ));
    ps.extend(product(
        "c14-r",
        &[
            seqs_upto(&[Op::Send, Op::SendT(2), Op::TrySend, Op::SendRepoll, Op::Close(Side::S), Op::Len(Side::S)], 2),
            seqs_upto(&try_r, if thorough { 2 } else { 1 }),
        ],
        &CAPS3,
        &[Class::DL],
        &[vec![(S, S), (S, S)], vec![(A, A), (A, A)]],
        &[(S, Conv::Clone)],
        &[env(2, 1, None, pb2(thorough)), env(1, 1, None, pb2(thorough))],
        false,
    ));
    // refused try_send leaves the channel unchanged: observers before / after
    ps.extend(product(
        "c14-refused",
        &[
            vec![
                vec![Op::TrySend, Op::Len(Side::S), Op::TrySend, Op::Len(Side::S), Op::IsFull(Side::S)],
                vec![Op::TrySendO, Op::TrySendO, Op::Len(Side::S), Op::RCount(Side::S)],
            ],
            seqs_upto(&[Op::TryRecv, Op::Len(Side::R), Op::Recv], 1),
        ],
        &[Cap::B(0), Cap::B(1)],
        &[Class::DL],
        &sync_only(2),
        &[(S, Conv::Clone)],
        &[env(2, 1, None, pb2(thorough))],
        false,
    ));
    // all receivers gone while two sender-side threads contend: the realtime
    // variants must not fall back to a blocking acquisition on any path
    ps.extend(product(
        "c14-3thr-rt",
        &[
            seqs(&[Op::TrySendRt, Op::TrySendORt], 1),
            seqs(&[Op::TrySend, Op::Len(Side::S), Op::TrySendRt], 1),
            seqs(&[Op::Len(Side::R), Op::TryRecvRt], 1),
        ],
        &[Cap::B(0), Cap::B(1)],
        &[Class::DL],
        &sync_only(3),
        &[(S, Conv::Clone)],
        &[env(2, 1, None, pb3(thorough)), env(1, 1, None, pb3(thorough))],
        false,
    ));
    ps.extend(product(
        "c14-norecv",
        &[
            vec![
                vec![Op::DropHandle(Side::R), Op::TrySendRt],
                vec![Op::DropHandle(Side::R), Op::TrySendORt],
                vec![Op::DropHandle(Side::R), Op::TrySend],
                vec![Op::DropHandle(Side::R), Op::TrySendO],
                vec![Op::Close(Side::R), Op::TrySendRt, Op::TrySendORt],
            ],
            seqs(&[Op::TrySend, Op::Len(Side::S), Op::Send, Op::TrySendRt, Op::Close(Side::S)], 1),
        ],
        &[Cap::B(0), Cap::B(1)],
        &[Class::DL],
        &[vec![(S, S), (S, S)], vec![(A, A), (A, A)]],
        &[(S, Conv::Clone)],
        &[env(2, 1, None, UNB), env(1, 1, None, UNB)],
        false,
    ));
    ps.extend(product(
        "c14-nosend",
        &[
            vec![
                vec![Op::DropHandle(Side::S), Op::TryRecvRt],
                vec![Op::DropHandle(Side::S), Op::TryRecv],
                vec![Op::DropHandle(Side::S), Op::Drain(VecState::Spare)],
            ],
            seqs(&[Op::TryRecv, Op::Len(Side::R), Op::TryRecvRt, Op::Close(Side::R)], 1),
        ],
        &[Cap::B(0), Cap::B(1)],
        &[Class::DL],
        &[vec![(S, S), (S, S)], vec![(A, A), (A, A)]],
        &[(S, Conv::Clone)],
        &[env(2, 1, None, UNB), env(1, 1, None, UNB)],
        false,
    ));
    // other receivers parked / pending while one drains or tries
    ps.extend(product(
        "c14-parked",
        &[
            vec![
                vec![Op::Len(Side::S), Op::FRecv(0), Op::Poll(0, 0), Op::Set(0), Op::Wait(1)],
                vec![Op::Len(Side::S), Op::FRecv(0), Op::Poll(0, 0), Op::FRecv(1), Op::Poll(1, 0), Op::Set(0), Op::Wait(1)],
            ],
            vec![
                vec![Op::Wait(0), Op::Drain(VecState::Spare), Op::Set(1)],
                vec![Op::Wait(0), Op::TryRecv, Op::Drain(VecState::Empty), Op::Set(1)],
                vec![Op::Wait(0), Op::TryRecvRt, Op::Set(1)],
            ],
        ],
        &[Cap::B(0), Cap::B(1)],
        &[Class::DL],
        &[vec![(A, A), (S, S)], vec![(A, A), (A, A)]],
        &[(S, Conv::Clone)],
        &[env(2, 1, None, UNB)],
        false,
    ));
    // an Option-taking send called with None (it panics, as documented) while
    // a receiver is pending: the refused call leaves the channel unchanged, the
    // next send reaches that receiver
    ps.extend(product(
        "c14-none",
        &[
            vec![
                vec![Op::Wait(0), Op::SendNone(0), Op::TrySend, Op::Set(1)],
                vec![Op::Wait(0), Op::SendNone(1), Op::TrySend, Op::Set(1)],
                vec![Op::Wait(0), Op::SendNone(2), Op::TrySend, Op::Set(1)],
            ],
            vec![
                vec![Op::FRecv(0), Op::Poll(0, 0), Op::Set(0), Op::Wait(1), Op::Poll(0, 0)],
                vec![Op::FRecv(0), Op::Poll(0, 0), Op::FRecv(1), Op::Poll(1, 0), Op::Set(0), Op::Wait(1), Op::Poll(0, 0), Op::Poll(1, 0)],
            ],
        ],
        &[Cap::B(0), Cap::B(1)],
        &[Class::DL],
        &[vec![(S, S), (A, A)], vec![(A, A), (A, A)]],
        &[(S, Conv::Clone)],
        &[env(2, 1, None, UNB)],
        false,
    ));
    // a future dropped in the claimed-but-not-completed window while a third
    // thread uses the non-blocking operations
    ps.extend(product(
        "c14-3thr-drop",
        &[
            seqs(&[Op::Send, Op::TrySend], 1),
            vec![vec![Op::FRecv(0), Op::Poll(0, 0), Op::FDrop(0)], vec![Op::FRecv(0), Op::Poll(0, 0), Op::Poll(0, 1)]],
            seqs(&[Op::TrySend, Op::TryRecv, Op::Drain(VecState::Spare)], 1),
        ],
        &[Cap::B(0), Cap::B(1)],
        &[Class::DL],
        &[vec![(S, S), (A, A), (S, S)]],
        &[(S, Conv::Clone)],
        &[env(2, 1, None, pb3(thorough)), stalled(env(2, 1, None, pb3(thorough)), 14)],
        false,
    ));
    ps.extend(product(
        "c14-3thr",
        &[
            seqs(&[Op::TrySend, Op::TrySendO], 1),
            seqs(&[Op::Send, Op::SendT(1)], 1),
            seqs(&[Op::TryRecv, Op::Drain(VecState::Spare), Op::Recv], 2),
        ],
        &[Cap::B(0), Cap::B(1)],
        &[Class::DL],
        &sync_only(3),
        &[(S, Conv::Clone)],
        &[env(2, 1, None, pb3(thorough))],
        false,
    ));
    Suite {
        cfg: cfg(&[Oracle::Outcome, Oracle::Linear, Oracle::ExactlyOnce, Oracle::DropOnce], &[Kind::NoWait], false, true),
        rule: "try_send*, try_recv*, drain_into against a peer that loom preempts at every point of each of its own operations (including while it holds the channel lock), reported parallelism {1,2}; truthfulness: results in the reference model's outcome set (a refused try_send leaves the state unchanged), value moved exactly when success is reported; never waits: inside the call the shim forbids park, signal-wait loops and repeated loads of a signal state word, and for the *_realtime variants also any yield/sleep and more than 12 synchronisation steps".into(),
        programs: ps,
    }
}

fn c15(thorough: bool) -> Suite {
    let mut ps = Vec::new();
    let classes: &[Class] = if thorough {
        &[Class::D4, Class::DP, Class::DL, Class::P, Class::L, Class::B3]
    } else {
        &[Class::DP, Class::DL, Class::P, Class::L]
    };
    let fs = vec![
        vec![Op::FSend(0), Op::FDrop(0)],
        vec![Op::FSend(0), Op::Poll(0, 0), Op::FDrop(0)],
        vec![Op::FSend(0), Op::Poll(0, 0), Op::Poll(0, 0), Op::FDrop(0)],
        vec![Op::FSend(0), Op::Poll(0, 0), Op::Poll(0, 1), Op::FDrop(0), Op::TrySend],
        vec![Op::FSend(0), Op::Poll(0, 0), Op::FDrop(0), Op::Send],
    ];
    let fr = vec![
        vec![Op::FRecv(0), Op::FDrop(0)],
        vec![Op::FRecv(0), Op::Poll(0, 0), Op::FDrop(0)],
        vec![Op::FRecv(0), Op::Poll(0, 0), Op::Poll(0, 0), Op::FDrop(0)],
        vec![Op::FRecv(0), Op::Poll(0, 0), Op::Poll(0, 1), Op::FDrop(0), Op::TryRecv],
        vec![Op::FRecv(0), Op::Poll(0, 0), Op::FDrop(0), Op::Recv],
        vec![Op::FStream(0), Op::Poll(0, 0), Op::FDrop(0), Op::TryRecv],
        vec![Op::FStream(0), Op::Poll(0, 0), Op::Poll(0, 0), Op::FDrop(0)],
    ];
    ps.extend(product(
        "c15-send",
        &[fs, seqs_upto(&[Op::Recv, Op::TryRecv, Op::RecvT(1), Op::RecvRepoll, Op::Drain(VecState::Spare), Op::Close(Side::R)], 2)],
        &[Cap::B(0), Cap::B(1)],
        classes,
        &[vec![(A, A), (S, S)], vec![(A, A), (A, A)]],
        &[(S, Conv::Clone)],
        &[env(2, 1, None, pb2(thorough))],
        false,
    ));
    ps.extend(product(
        "c15-recv",
        &[seqs_upto(&[Op::Send, Op::TrySend, Op::SendT(1), Op::SendRepoll, Op::Close(Side::S)], 2), fr],
        &[Cap::B(0), Cap::B(1)],
        classes,
        &[vec![(S, S), (A, A)], vec![(A, A), (A, A)]],
        &[(S, Conv::Clone)],
        &[env(2, 1, None, pb2(thorough))],
        false,
    ));
    // a second waiter queued behind the dropped one keeps its place
    ps.extend(product(
        "c15-queue",
        &[
            vec![
                vec![Op::FSend(0), Op::Poll(0, 0), Op::FSend(1), Op::Poll(1, 0), Op::FSend(2), Op::Poll(2, 0), Op::FDrop(1), Op::Set(0), Op::Wait(1)],
                vec![Op::FSend(0), Op::Poll(0, 0), Op::FSend(1), Op::Poll(1, 0), Op::FDrop(0), Op::Set(0), Op::Wait(1)],
                vec![Op::FSend(0), Op::Poll(0, 0), Op::FSend(1), Op::Poll(1, 0), Op::FSend(2), Op::Poll(2, 0), Op::FDrop(0), Op::Set(0), Op::Wait(1)],
                vec![Op::FSend(0), Op::Poll(0, 0), Op::FSend(1), Op::Poll(1, 0), Op::FSend(2), Op::Poll(2, 0), Op::FSend(3), Op::Poll(3, 0), Op::FDrop(1), Op::Set(0), Op::Wait(1)],
            ],
            vec![vec![Op::Wait(0), Op::Recv, Op::TryRecv, Op::TryRecv, Op::Set(1)], vec![Op::Wait(0), Op::Drain(VecState::Empty), Op::Set(1)]],
        ],
        &[Cap::B(0), Cap::B(1)],
        classes,
        &[vec![(A, A), (S, S)]],
        &[(S, Conv::Clone)],
        &[env(2, 1, None, UNB)],
        false,
    ));
    // the first of two queued waiters is completed by a peer and then dropped
    // without another poll: the cancel attempt finds only the *other* waiter
    ps.extend(product(
        "c15-first-of-two",
        &[
            vec![
                vec![Op::FSend(0), Op::Poll(0, 0), Op::FSend(1), Op::Poll(1, 0), Op::Set(0), Op::Wait(1), Op::FDrop(0), Op::Set(2), Op::Wait(3), Op::Poll(1, 0)],
                vec![Op::FSend(0), Op::Poll(0, 0), Op::FSend(1), Op::Poll(1, 0), Op::Set(0), Op::FDrop(0), Op::Wait(1), Op::Set(2), Op::Wait(3), Op::Poll(1, 0)],
            ],
            vec![
                vec![Op::Wait(0), Op::Recv, Op::Set(1), Op::Wait(2), Op::TryRecv, Op::Set(3)],
                vec![Op::Wait(0), Op::TryRecv, Op::Set(1), Op::Wait(2), Op::Recv, Op::Set(3)],
            ],
        ],
        &[Cap::B(0), Cap::B(1)],
        classes,
        &[vec![(A, A), (S, S)], vec![(A, A), (A, A)]],
        &[(S, Conv::Clone)],
        &[env(2, 1, None, Some(4))],
        false,
    ));
    ps.extend(product(
        "c15-first-of-two-r",
        &[
            vec![
                vec![Op::Wait(0), Op::TrySend, Op::Set(1), Op::Wait(2), Op::TrySend, Op::Set(3)],
                vec![Op::Wait(0), Op::Send, Op::Set(1), Op::Wait(2), Op::TrySend, Op::Set(3)],
            ],
            vec![
                vec![Op::FRecv(0), Op::Poll(0, 0), Op::FRecv(1), Op::Poll(1, 0), Op::Set(0), Op::Wait(1), Op::FDrop(0), Op::Set(2), Op::Wait(3), Op::Poll(1, 0)],
                vec![Op::FRecv(0), Op::Poll(0, 0), Op::FRecv(1), Op::Poll(1, 0), Op::Set(0), Op::FDrop(0), Op::Wait(1), Op::Set(2), Op::Wait(3), Op::Poll(1, 0)],
            ],
        ],
        &[Cap::B(0), Cap::B(1)],
        classes,
        &[vec![(S, S), (A, A)], vec![(A, A), (A, A)]],
        &[(S, Conv::Clone)],
        &[env(2, 1, None, Some(4))],
        false,
    ));
    ps.extend(product(
        "c15-queue-r",
        &[
            vec![vec![Op::Wait(0), Op::TrySend, Op::TrySend, Op::TrySend, Op::Set(1)], vec![Op::Wait(0), Op::Send, Op::Send, Op::Set(1)]],
            vec![
                vec![Op::FRecv(0), Op::Poll(0, 0), Op::FRecv(1), Op::Poll(1, 0), Op::FRecv(2), Op::Poll(2, 0), Op::FDrop(0), Op::Set(0), Op::Wait(1), Op::Poll(1, 0), Op::Poll(2, 0)],
                vec![Op::FRecv(0), Op::Poll(0, 0), Op::FRecv(1), Op::Poll(1, 0), Op::FRecv(2), Op::Poll(2, 0), Op::FRecv(3), Op::Poll(3, 0), Op::FDrop(1), Op::Set(0), Op::Wait(1), Op::Poll(0, 0), Op::Poll(2, 0), Op::Poll(3, 0)],
            ],
        ],
        &[Cap::B(0)],
        classes,
        &[vec![(S, S), (A, A)]],
        &[(S, Conv::Clone)],
        &[env(2, 1, None, UNB)],
        false,
    ));
    let mut k = MEM.to_vec();
    k.extend_from_slice(&STUCK);
    Suite {
        cfg: cfg(&[Oracle::ExactlyOnce, Oracle::DropOnce, Oracle::Fifo, Oracle::Outcome, Oracle::Linear], &k, true, false),
        rule: "send / receive futures and the stream dropped at every point of their life (never polled, pending, pending after a spurious poll with the same or another waker, claimed by a peer, completed) against sync / async peers and close, followed by further operations; droppable payloads; a second and third waiter queued around the dropped one; oracle: delivered exactly once xor dropped exactly once, no access to the future's memory after the drop (tracker), later operations per the reference model, order of remaining waiters".into(),
        programs: ps,
    }
}

fn c16(thorough: bool) -> Suite {
    let mut ps = Vec::new();
    let polls_s = vec![
        vec![Op::FSend(0), Op::Poll(0, 0), Op::Poll(0, 0), Op::Poll(0, 0)],
        vec![Op::FSend(0), Op::Poll(0, 0), Op::Poll(0, 1), Op::Poll(0, 1)],
        vec![Op::FSend(0), Op::Poll(0, 0), Op::Poll(0, 1), Op::Poll(0, 0), Op::Poll(0, 0)],
    ];
    let polls_r = vec![
        vec![Op::FRecv(0), Op::Poll(0, 0), Op::Poll(0, 0), Op::Poll(0, 0)],
        vec![Op::FRecv(0), Op::Poll(0, 0), Op::Poll(0, 1), Op::Poll(0, 1)],
        vec![Op::FStream(0), Op::Poll(0, 0), Op::Poll(0, 0), Op::Poll(0, 0), Op::Poll(0, 0)],
        vec![Op::FStream(0), Op::Poll(0, 0), Op::Poll(0, 1), Op::Poll(0, 0), Op::Poll(0, 1)],
        vec![Op::FStream(0), Op::StreamNext(0), Op::Poll(0, 0), Op::Poll(0, 0), Op::StreamNext(0)],
    ];
    ps.extend(product(
        "c16-send",
        &[polls_s, seqs_upto(&[Op::Recv, Op::TryRecv, Op::Close(Side::R), Op::Len(Side::R)], 2)],
        &[Cap::B(0), Cap::B(1)],
        &[Class::DL, Class::DP],
        &[vec![(A, A), (S, S)], vec![(A, A), (A, A)]],
        &[(A, Conv::Clone)],
        &[env(2, 1, None, pb2(thorough))],
        false,
    ));
    ps.extend(product(
        "c16-recv",
        &[seqs_upto(&[Op::Send, Op::TrySend, Op::Close(Side::S), Op::Len(Side::S)], 2), polls_r],
        &[Cap::B(0), Cap::B(1)],
        &[Class::DL, Class::DP],
        &[vec![(S, S), (A, A)], vec![(A, A), (A, A)]],
        &[(A, Conv::Clone)],
        &[env(2, 1, None, pb2(thorough))],
        false,
    ));
    // executor that re-polls with a fresh waker and sleeps on the newest only
    ps.extend(product(
        "c16-repoll",
        &[seqs(&[Op::SendRepoll, Op::Send], 1), seqs(&[Op::RecvRepoll, Op::Recv], 1)],
        &[Cap::B(0), Cap::B(1)],
        &[Class::DL],
        &all_flavours(2),
        &[(A, Conv::Clone)],
        &[env(2, 1, None, UNB)],
        false,
    ));
    let mut k = STUCK.to_vec();
    k.push(Kind::Panic);
    Suite {
        cfg: cfg(&[Oracle::Outcome, Oracle::ExactlyOnce, Oracle::DropOnce], &k, false, false),
        rule: "poll scripts an executor may legally produce (spurious polls with the same and with a different waker, polls after completion, repeated waits on one stream) racing with a peer thread; an executor that re-polls with a fresh waker and then sleeps on the newest waker only (waking a stale waker = deadlock); results in the reference model's outcome set, a finished future panics, stream items once and in order then None forever".into(),
        programs: ps,
    }
}

fn c19(thorough: bool) -> Suite {
    let mut ps = Vec::new();
    let vs = [VecState::Empty, VecState::Spare, VecState::Prefilled, VecState::Tight];
    let drains: Vec<Vec<Op>> = vs
        .iter()
        .flat_map(|v| {
            vec![
                vec![Op::Wait(0), Op::Drain(*v), Op::Set(1)],
                vec![Op::Wait(0), Op::Drain(*v), Op::Drain(VecState::Empty), Op::Set(1)],
            ]
        })
        .collect();
    ps.extend(buffer_ring_family("c19-bufring", Class::DL));
    // channel states built by a setup prefix: k buffered + j pending senders
    ps.extend(product(
        "c19-state",
        &[
            vec![
                vec![Op::Set(0), Op::Wait(1)],
                vec![Op::TrySend, Op::Set(0), Op::Wait(1)],
                vec![Op::TrySend, Op::TrySend, Op::Set(0), Op::Wait(1)],
                vec![Op::TrySend, Op::FSend(0), Op::Poll(0, 0), Op::Set(0), Op::Wait(1), Op::Poll(0, 0)],
                vec![Op::TrySend, Op::FSend(0), Op::Poll(0, 0), Op::FSend(1), Op::Poll(1, 0), Op::Set(0), Op::Wait(1), Op::Poll(0, 0), Op::Poll(1, 0)],
                vec![Op::FSend(0), Op::Poll(0, 0), Op::FSend(1), Op::Poll(1, 0), Op::FSend(2), Op::Poll(2, 0), Op::FDrop(1), Op::Set(0), Op::Wait(1)],
                vec![Op::TrySend, Op::Close(Side::S), Op::Set(0), Op::Wait(1)],
            ],
            drains,
        ],
        &CAPS4,
        &[Class::DL, Class::P, Class::Z],
        &[vec![(A, A), (S, S)], vec![(A, A), (A, A)]],
        &[(S, Conv::Clone)],
        &[env(2, 1, None, UNB)],
        false,
    ));
    // a receive before the drain (hidden state left by earlier operations), and
    // other receivers parked while one drains
    ps.extend(product(
        "c19-after-recv",
        &[
            vec![
                vec![Op::TrySend, Op::TrySend, Op::Set(0), Op::Wait(1)],
                vec![Op::TrySend, Op::TrySend, Op::TrySend, Op::Set(0), Op::Wait(1)],
                vec![Op::TrySend, Op::FSend(0), Op::Poll(0, 0), Op::FSend(1), Op::Poll(1, 0), Op::Set(0), Op::Wait(1)],
            ],
            vs.iter()
                .flat_map(|v| {
                    vec![
                        vec![Op::Wait(0), Op::TryRecv, Op::Drain(*v), Op::Set(1)],
                        vec![Op::Wait(0), Op::Recv, Op::Drain(*v), Op::Drain(VecState::Empty), Op::Set(1)],
                        vec![Op::Wait(0), Op::RecvT(1), Op::Len(Side::R), Op::Drain(*v), Op::Set(1)],
                    ]
                })
                .collect(),
        ],
        &CAPS4,
        &[Class::DL],
        &[vec![(A, A), (S, S)], vec![(A, A), (A, A)]],
        &[(S, Conv::Clone)],
        &[env(2, 1, None, UNB)],
        false,
    ));
    ps.extend(product(
        "c19-parked",
        &[
            vec![
                vec![Op::Len(Side::S), Op::FRecv(0), Op::Poll(0, 0), Op::Set(0), Op::Wait(1)],
                vec![Op::Len(Side::S), Op::FRecv(0), Op::Poll(0, 0), Op::FRecv(1), Op::Poll(1, 0), Op::Set(0), Op::Wait(1)],
            ],
            vs.iter().map(|v| vec![Op::Wait(0), Op::Drain(*v), Op::Set(1)]).collect(),
        ],
        &[Cap::B(0), Cap::B(1)],
        &[Class::DL],
        &[vec![(A, A), (S, S)], vec![(A, A), (A, A)]],
        &[(S, Conv::Clone)],
        &[env(2, 1, None, UNB)],
        false,
    ));
    // drain racing with senders, started from non-initial states
    {
        let base = product(
            "c19-pre",
            &[
                seqs_upto(&[Op::Send, Op::TrySend, Op::SendT(2)], 2),
                vs.iter().map(|v| vec![Op::Drain(*v)]).collect(),
            ],
            &[Cap::B(1), Cap::B(2), Cap::Unbounded],
            &[Class::DL],
            &sync_only(2),
            &[(S, Conv::Clone)],
            &[env(2, 1, None, pb2(thorough))],
            false,
        );
        for (name, pre) in [
            ("send,recv", vec![Op::TrySend, Op::TryRecv]),
            ("send,send,recv", vec![Op::TrySend, Op::TrySend, Op::TryRecv]),
            ("cancelled-recv", vec![Op::FRecv(0), Op::Poll(0, 0), Op::FDrop(0)]),
        ] {
            ps.extend(with_prefix(base.clone(), &pre, name));
        }
    }
    // drain racing with senders (sync blocked / timed / try)
    ps.extend(product(
        "c19-race",
        &[
            seqs_upto(&[Op::Send, Op::TrySend, Op::SendT(2), Op::SendOT(2), Op::SendRepoll], 2),
            vs.iter().flat_map(|v| vec![vec![Op::Drain(*v)], vec![Op::Drain(*v), Op::Drain(VecState::Spare)], vec![Op::TryRecv, Op::Drain(*v)]]).collect(),
        ],
        &CAPS3,
        &[Class::DL, Class::DP, Class::B1],
        &sync_only(2),
        &[(S, Conv::Clone)],
        &[env(2, 1, None, pb2(thorough))],
        false,
    ));
    // waiting receivers instead of senders
    ps.extend(product(
        "c19-3thr",
        &[
            seqs(&[Op::Send, Op::TrySend], 1),
            seqs(&[Op::Send, Op::SendT(1)], 1),
            vec![vec![Op::Drain(VecState::Spare)], vec![Op::Drain(VecState::Prefilled), Op::Drain(VecState::Empty)], vec![Op::Recv, Op::Drain(VecState::Empty)]],
        ],
        &[Cap::B(0), Cap::B(1)],
        &[Class::DL],
        &sync_only(3),
        &[(S, Conv::Clone)],
        &[env(2, 1, None, pb3(thorough))],
        false,
    ));
    if thorough {
        ps.extend(product(
            "c19-race3",
            &[
                seqs(&[Op::Send, Op::TrySend, Op::SendT(2), Op::SendRepoll], 3),
                vs.iter().flat_map(|v| vec![vec![Op::Drain(*v), Op::Drain(VecState::Spare)], vec![Op::TryRecv, Op::Drain(*v), Op::Drain(*v)]]).collect(),
            ],
            &CAPS4,
            &[Class::DL],
            &[vec![(S, S), (S, S)], vec![(A, A), (A, A)]],
            &[(S, Conv::Clone)],
            &[env(2, 1, None, Some(5))],
            false,
        ));
        ps.extend(product(
            "c19-4thr",
            &[
                seqs(&[Op::Send, Op::TrySend], 1),
                seqs(&[Op::Send, Op::SendT(1)], 1),
                seqs(&[Op::Send, Op::SendRepoll], 1),
                vec![vec![Op::Drain(VecState::Spare), Op::Drain(VecState::Empty)], vec![Op::Drain(VecState::Prefilled), Op::Recv]],
            ],
            &[Cap::B(0), Cap::B(1), Cap::B(2)],
            &[Class::DL],
            &sync_only(4),
            &[(S, Conv::Clone)],
            &[env(2, 1, None, Some(2))],
            false,
        ));
    }
    let mut k = STUCK.to_vec();
    k.push(Kind::NoWait);
    Suite {
        cfg: cfg(&[Oracle::Drain, Oracle::Outcome, Oracle::Linear, Oracle::DropOnce, Oracle::Intact], &k, false, true),
        rule: "channel states built by a setup prefix (k buffered values + j pending async senders in known order, one cancelled; closed) x vector states {empty, spare capacity, pre-filled with sentinels and no spare capacity} x capacities {0,1,2,unbounded}; drain racing with blocked / timed / try senders; 3 threads; oracle: returned count = number appended, prefix untouched, order = buffer then senders oldest first, every drained sender reports success, closed => error and nothing appended, the call never waits for a peer".into(),
        programs: ps,
    }
}

fn c17(thorough: bool) -> Suite {
    let mut ps = Vec::new();
    let roles: Vec<Vec<Op>> = vec![
        vec![Op::LockL],
        vec![Op::LockT],
        vec![Op::LockL, Op::LockL],
        vec![Op::LockT, Op::LockL],
        vec![Op::LockL, Op::LockT],
        vec![Op::LockT, Op::LockT],
    ];
    let single: Vec<Vec<Op>> = vec![vec![Op::LockL], vec![Op::LockT]];
    for par in [2u8, 1] {
        // 2 threads: all role pairs, all schedules
        ps.extend(product("c17-2", &[roles.clone(), roles.clone()], &[Cap::B(0)], &[Class::P], &sync_only(2), &[(S, Conv::Clone)], &[env(par, 1, None, UNB)], false));
        // 3 threads
        ps.extend(product(
            "c17-3",
            &[roles.clone(), single.clone(), single.clone()],
            &[Cap::B(0)],
            &[Class::P],
            &sync_only(3),
            &[(S, Conv::Clone)],
            &[env(par, 1, None, pb3(thorough))],
            false,
        ));
        // 4 threads
        ps.extend(product(
            "c17-4",
            &[single.clone(), single.clone(), single.clone(), single.clone()],
            &[Cap::B(0)],
            &[Class::P],
            &sync_only(4),
            &[(S, Conv::Clone)],
            &[env(par, 1, None, Some(2))],
            false,
        ));
        // the retry loop of the lock really executed: up to 40 failed attempts
        // per thread come back at once (all phases of spin_cond: spinning,
        // yielding, zero-length sleeps, geometric back-off, the 1 ms sleep)
        // while the holder sits in its critical section
        ps.extend(product(
            "c17-2-spin",
            &[vec![vec![Op::LockL], vec![Op::LockL, Op::LockL]], vec![vec![Op::LockL], vec![Op::LockT, Op::LockL]]],
            &[Cap::B(0)],
            &[Class::P],
            &sync_only(2),
            &[(S, Conv::Clone)],
            &[lock_spinning(env(par, 1, None, Some(2)), 40), lock_spinning(env(par, 1, None, Some(3)), 6)],
            false,
        ));
        ps.extend(product(
            "c17-3-spin",
            &[single.clone(), single.clone(), vec![vec![Op::LockL]]],
            &[Cap::B(0)],
            &[Class::P],
            &sync_only(3),
            &[(S, Conv::Clone)],
            &[lock_spinning(env(par, 1, None, Some(2)), 14)],
            false,
        ));
        if par == 1 {
            // the single-core branch against a holder that stays inside for
            // 200 of the waiter's yields
            ps.extend(product(
                "c17-2-longhold",
                &[vec![vec![Op::LockL]], vec![vec![Op::LockL], vec![Op::LockT, Op::LockL]]],
                &[Cap::B(0)],
                &[Class::P],
                &sync_only(2),
                &[(S, Conv::Clone)],
                &[stalled(lock_spinning(env(par, 1, None, Some(1)), 200_000), 200)],
                false,
            ));
        }
        if par == 2 {
            // a very long hold (about a second of waiting): 13 000 000 failed
            // attempts, 20 doublings of the burst length
            ps.extend(product(
                "c17-2-verylonghold",
                &[vec![vec![Op::LockL]], vec![vec![Op::LockL]]],
                &[Cap::B(0)],
                &[Class::P],
                &sync_only(2),
                &[(S, Conv::Clone)],
                &[stalled(lock_spinning(env(par, 1, None, Some(1)), 13_000_000), 200)],
                false,
            ));
        }
        if par == 2 {
            // a long hold: the waiter goes through every round of the geometric
            // back-off (200 000 failed attempts: 13 doublings of the burst
            // length and beyond) while the holder, preempted once, stands still
            ps.extend(product(
                "c17-2-longhold",
                &[vec![vec![Op::LockL]], vec![vec![Op::LockL]]],
                &[Cap::B(0)],
                &[Class::P],
                &sync_only(2),
                &[(S, Conv::Clone)],
                &[stalled(lock_spinning(env(par, 1, None, Some(1)), 200_000), 200)],
                false,
            ));
        }
        if thorough {
            ps.extend(product(
                "c17-3-22",
                &[roles.clone(), roles.clone(), single.clone()],
                &[Cap::B(0)],
                &[Class::P],
                &sync_only(3),
                &[(S, Conv::Clone)],
                &[env(par, 1, None, Some(3))],
                false,
            ));
            ps.extend(product(
                "c17-4-deep",
                &[roles.clone(), single.clone(), single.clone(), single.clone()],
                &[Cap::B(0)],
                &[Class::P],
                &sync_only(4),
                &[(S, Conv::Clone)],
                &[env(par, 1, None, Some(2))],
                false,
            ));
        }
    }
    let k = vec![Kind::DataRace, Kind::Overlap, Kind::Deadlock, Kind::Livelock, Kind::NoWait, Kind::Panic];
    Suite {
        cfg: cfg(&[], &k, false, true),
        rule: "kanal's own lock (lock_api::Mutex<RawMutexLock, loom::cell::UnsafeCell<u64>>) driven directly: threads with roles L (lock; critical section; unlock) and T (try_lock; critical section if acquired), once or twice; 2 threads: every role pair, every schedule; 3 and 4 threads preemption-bounded; reported parallelism 1 and 2 (both branches of spin_cond); in the `spin` families up to 40 failed acquisitions per thread are retried by the lock's own loop, so that every phase of it runs against a holder sitting in its critical section; oracle: overlap monitor with a scheduling point inside the section, loom causality check on the protected cell (exclusion and release->acquire visibility), final counter = number of sections, try_lock inside a no-wait region (no yield, bounded steps), every execution terminates".into(),
        programs: ps,
    }
}
