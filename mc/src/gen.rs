//! Program families.  Every family is a *complete* enumeration of a stated
//! space (threads x ops per thread x alphabet x capacities x classes x
//! environment knobs), filtered to closed (the reference model has no
//! interleaving that leaves a thread blocked forever) and colliding programs.
//! The quick tier uses a smaller space, never a sample of the larger one.

use crate::model;
use crate::oracle::Oracle;
use crate::prog::*;
use crate::runner::{Kind, RunCfg};
use Flavour::{Async as A, Sync as S};

pub struct Suite {
    pub cfg: RunCfg,
    pub programs: Vec<Program>,
    /// description of the space, for the evidence file
    pub rule: String,
}

fn env(par: u8, spin: u8, sp: Option<u8>, preempt: Option<u8>) -> Env {
    Env {
        par,
        spin,
        spurious_park: sp,
        preempt,
    }
}

fn cfg(oracles: &[Oracle], kinds: &[Kind], track: bool, nowait: bool) -> RunCfg {
    let mut k: Vec<Kind> = oracles.iter().map(|o| Kind::Oracle(*o)).collect();
    k.extend_from_slice(kinds);
    RunCfg {
        oracles: oracles.to_vec(),
        kinds: k,
        track,
        nowait,
        max_branches: 3000,
        wall_cap_ms: 120_000,
        model_cap: 2_000_000,
    }
}

/// Which handles a thread needs, from its ops.
fn spec(ops: &[Op], fs: Flavour, fr: Flavour) -> ThreadSpec {
    let needs_s = ops.iter().any(|o| o.side() == Some(Side::S));
    let needs_r = ops.iter().any(|o| o.side() == Some(Side::R));
    ThreadSpec {
        s: needs_s.then_some(fs),
        r: needs_r.then_some(fr),
        ops: ops.to_vec(),
    }
}

fn mk(name: String, cap: Cap, class: Class, ctor: Flavour, via: Conv, threads: Vec<ThreadSpec>, env: Env) -> Program {
    Program {
        name,
        cap,
        class,
        ctor,
        via,
        threads,
        env,
    }
}

fn opname(o: &Op) -> String {
    format!("{:?}", o).replace(' ', "")
}

fn pname(prefix: &str, cap: Cap, class: Class, threads: &[ThreadSpec], e: &Env) -> String {
    let t: Vec<String> = threads
        .iter()
        .map(|t| {
            let f = |x: Option<Flavour>| match x {
                None => "-",
                Some(S) => "s",
                Some(A) => "a",
            };
            format!(
                "{}{}[{}]",
                f(t.s),
                f(t.r),
                t.ops.iter().map(opname).collect::<Vec<_>>().join(",")
            )
        })
        .collect();
    format!(
        "{prefix}/{:?}/{:?}/{}/par{}spin{}sp{:?}pb{:?}",
        cap,
        class,
        t.join("|"),
        e.par,
        e.spin,
        e.spurious_park,
        e.preempt
    )
}

/// closed (no model interleaving leaves a thread stuck) and within caps
pub fn closed(p: &Program) -> bool {
    let ex = model::explore(p, 300_000);
    !ex.capped && !ex.can_deadlock && !ex.outcomes.is_empty()
}

/// every op sequence of length exactly n over the alphabet
fn seqs(alpha: &[Op], n: usize) -> Vec<Vec<Op>> {
    let mut out: Vec<Vec<Op>> = vec![vec![]];
    for _ in 0..n {
        let mut next = Vec::new();
        for s in &out {
            for o in alpha {
                let mut s2 = s.clone();
                s2.push(*o);
                next.push(s2);
            }
        }
        out = next;
    }
    out
}

/// sequences of length 1..=n
fn seqs_upto(alpha: &[Op], n: usize) -> Vec<Vec<Op>> {
    (1..=n).flat_map(|k| seqs(alpha, k)).collect()
}

fn valid_flavour(ops: &[Op], fs: Flavour, fr: Flavour) -> bool {
    // ops that exist only on one flavour are issued through as_sync/as_async
    // views, so every assignment is valid; scripted futures need slots set up
    let _ = fs;
    // Iterator::next needs `&mut Receiver`: no borrowed view can provide it
    !(fr == A && ops.contains(&Op::Next))
}

/// scripted ops are well formed: Poll/FDrop/StreamNext only on a live slot
fn well_formed(ops: &[Op]) -> bool {
    let mut live = [0u8; 4]; // 0 none, 1 send, 2 recv, 3 stream
    for o in ops {
        match *o {
            Op::FSend(s) => {
                if live[s as usize] != 0 {
                    return false;
                }
                live[s as usize] = 1
            }
            Op::FRecv(s) => {
                if live[s as usize] != 0 {
                    return false;
                }
                live[s as usize] = 2
            }
            Op::FStream(s) => {
                if live[s as usize] != 0 {
                    return false;
                }
                live[s as usize] = 3
            }
            Op::Poll(s, _) => {
                if live[s as usize] == 0 {
                    return false;
                }
            }
            Op::StreamNext(s) => {
                if live[s as usize] != 3 {
                    return false;
                }
            }
            Op::FDrop(s) => {
                if live[s as usize] == 0 {
                    return false;
                }
                live[s as usize] = 0
            }
            Op::NewHandle(_, Conv::ToOther) | Op::DropHandle(_) => {
                if live.iter().any(|x| *x != 0) {
                    return false;
                }
            }
            _ => {}
        }
    }
    true
}

pub const CAPS3: [Cap; 3] = [Cap::B(0), Cap::B(1), Cap::Unbounded];
pub const CAPS4: [Cap; 4] = [Cap::B(0), Cap::B(1), Cap::B(2), Cap::Unbounded];

/// The workhorse: all programs with one thread per alphabet, each running a
/// sequence from its list, over caps x classes x flavour assignments x envs.
#[allow(clippy::too_many_arguments)]
fn product(
    prefix: &str,
    per_thread: &[Vec<Vec<Op>>],
    caps: &[Cap],
    classes: &[Class],
    flavours: &[Vec<(Flavour, Flavour)>],
    ctor_via: &[(Flavour, Conv)],
    envs: &[Env],
    need_collision: bool,
) -> Vec<Program> {
    let mut out = Vec::new();
    // cartesian product of per-thread sequences
    let mut combos: Vec<Vec<Vec<Op>>> = vec![vec![]];
    for list in per_thread {
        let mut next = Vec::new();
        for c in &combos {
            for s in list {
                let mut c2 = c.clone();
                c2.push(s.clone());
                next.push(c2);
            }
        }
        combos = next;
    }
    for combo in &combos {
        if !combo.iter().all(|ops| well_formed(ops)) {
            continue;
        }
        if need_collision {
            let any_send = combo.iter().flatten().any(|o| o.is_send_like());
            let any_other = combo
                .iter()
                .flatten()
                .any(|o| o.is_recv_like() || matches!(o, Op::Close(_)));
            if !(any_send && any_other) {
                continue;
            }
        }
        for &cap in caps {
            // closedness does not depend on class / flavour / env: test once
            let probe_threads: Vec<ThreadSpec> = combo.iter().map(|ops| spec(ops, S, S)).collect();
            let probe = mk(
                String::new(),
                cap,
                Class::DL,
                S,
                Conv::Clone,
                probe_threads,
                env(2, 1, None, None),
            );
            if !closed(&probe) {
                continue;
            }
            for fl in flavours {
                if fl.len() != combo.len() {
                    continue;
                }
                if !combo.iter().zip(fl).all(|(ops, (fs, fr))| valid_flavour(ops, *fs, *fr)) {
                    continue;
                }
                let threads: Vec<ThreadSpec> = combo
                    .iter()
                    .zip(fl)
                    .map(|(ops, (fs, fr))| spec(ops, *fs, *fr))
                    .collect();
                for &class in classes {
                    for &(ctor, via) in ctor_via {
                        for e in envs {
                            let name = pname(prefix, cap, class, &threads, e);
                            out.push(mk(name, cap, class, ctor, via, threads.clone(), *e));
                        }
                    }
                }
            }
        }
    }
    out
}

fn all_flavours(n: usize) -> Vec<Vec<(Flavour, Flavour)>> {
    // every {sync, async} assignment of each thread (a thread uses one
    // flavour for both of its handles)
    let mut out: Vec<Vec<(Flavour, Flavour)>> = vec![vec![]];
    for _ in 0..n {
        let mut next = Vec::new();
        for c in &out {
            for f in [S, A] {
                let mut c2 = c.clone();
                c2.push((f, f));
                next.push(c2);
            }
        }
        out = next;
    }
    out
}

fn sync_only(n: usize) -> Vec<Vec<(Flavour, Flavour)>> {
    vec![vec![(S, S); n]]
}

// ---- alphabets
const SEND_CORE: [Op; 4] = [Op::Send, Op::TrySend, Op::SendT(0), Op::SendT(2)];
const RECV_CORE: [Op; 4] = [Op::Recv, Op::TryRecv, Op::RecvT(0), Op::RecvT(2)];
const SEND_FULL: [Op; 9] = [
    Op::Send,
    Op::SendT(0),
    Op::SendT(2),
    Op::SendOT(1),
    Op::TrySend,
    Op::TrySendO,
    Op::TrySendRt,
    Op::TrySendORt,
    Op::SendRepoll,
];
const RECV_FULL: [Op; 8] = [
    Op::Recv,
    Op::RecvT(0),
    Op::RecvT(2),
    Op::TryRecv,
    Op::TryRecvRt,
    Op::Drain(VecState::Spare),
    Op::Next,
    Op::RecvRepoll,
];

fn with(a: &[Op], extra: &[Op]) -> Vec<Op> {
    let mut v = a.to_vec();
    v.extend_from_slice(extra);
    v
}

fn both_pars(spin: u8, preempt: Option<u8>) -> Vec<Env> {
    vec![env(2, spin, None, preempt), env(1, spin, None, preempt)]
}

pub fn suite(check: &str, thorough: bool) -> Suite {
    match check {
        "C01" => c01(thorough),
        "C02" => c02(thorough),
        "C03" => c03(thorough),
        "C05" => c05(thorough),
        _ => panic!("unknown check {check}"),
    }
}

/// the shared generated space: 2 threads x (<=ka, <=kb) ops
fn core2(prefix: &str, sa: &[Op], ra: &[Op], ka: usize, kb: usize, caps: &[Cap], classes: &[Class], fl: &[Vec<(Flavour, Flavour)>], envs: &[Env]) -> Vec<Program> {
    product(
        prefix,
        &[seqs_upto(sa, ka), seqs_upto(ra, kb)],
        caps,
        classes,
        fl,
        &[(S, Conv::Clone)],
        envs,
        true,
    )
}


/// preemption bound for programs with more than one op per thread
fn pb2(thorough: bool) -> Option<u8> {
    Some(if thorough { 5 } else { 3 })
}
/// preemption bound for programs with 3+ threads
fn pb3(thorough: bool) -> Option<u8> {
    Some(if thorough { 3 } else { 2 })
}
const UNB: Option<u8> = None;

fn c01(thorough: bool) -> Suite {
    let mut ps = Vec::new();
    // 2 threads, full alphabet, (1,1), every flavour assignment, all schedules
    ps.extend(core2(
        "c01-full11",
        &with(&SEND_FULL, &[Op::Close(Side::S)]),
        &with(&RECV_FULL, &[Op::Close(Side::R)]),
        1,
        1,
        if thorough { &CAPS4 } else { &CAPS3 },
        if thorough { &[Class::DL, Class::DP, Class::B1, Class::DZ] } else { &[Class::DL] },
        &all_flavours(2),
        &[env(2, 1, None, UNB)],
    ));
    // 2 threads, core alphabet, up to (2,2), preemption-bounded
    ps.extend(core2(
        "c01-core22",
        &with(&SEND_CORE, &[Op::Close(Side::S)]),
        &with(&RECV_CORE, &[Op::Close(Side::R), Op::Drain(VecState::Empty)]),
        2,
        2,
        &CAPS3,
        if thorough { &[Class::DL, Class::DP] } else { &[Class::DL] },
        &sync_only(2),
        &[env(2, 1, None, pb2(thorough))],
    ));
    if thorough {
        // without timed ops the (2,2) space is small enough for all schedules
        ps.extend(core2(
            "c01-core22-all",
            &[Op::Send, Op::TrySend, Op::Close(Side::S)],
            &[Op::Recv, Op::TryRecv, Op::Close(Side::R), Op::Drain(VecState::Empty)],
            2,
            2,
            &CAPS4,
            &[Class::DL],
            &all_flavours(2),
            &[env(2, 1, None, UNB)],
        ));
        ps.extend(core2(
            "c01-full22",
            &with(&SEND_FULL, &[Op::Close(Side::S)]),
            &with(&RECV_FULL, &[Op::Close(Side::R)]),
            2,
            2,
            &CAPS3,
            &[Class::DL],
            &sync_only(2),
            &[env(2, 1, None, Some(3))],
        ));
    }
    // 3 threads: two producers + one consumer doing two receives; one
    // producer doing two sends + two consumers
    ps.extend(product(
        "c01-3thr-ppc",
        &[
            seqs(&[Op::Send, Op::TrySend, Op::SendT(1)], 1),
            seqs(&[Op::Send, Op::SendT(1)], 1),
            seqs(&[Op::Recv, Op::TryRecv, Op::RecvT(1), Op::Drain(VecState::Empty)], 2),
        ],
        &CAPS3,
        &[Class::DL],
        &sync_only(3),
        &[(S, Conv::Clone)],
        &[env(2, 1, None, pb3(thorough))],
        true,
    ));
    ps.extend(product(
        "c01-3thr-pcc",
        &[
            seqs(&[Op::Send, Op::TrySend, Op::SendT(1)], 2),
            seqs(&[Op::Recv, Op::RecvT(1)], 1),
            seqs(&[Op::Recv, Op::TryRecv, Op::Close(Side::R)], 1),
        ],
        &CAPS3,
        &[Class::DL],
        &sync_only(3),
        &[(S, Conv::Clone)],
        &[env(2, 1, None, pb3(thorough))],
        true,
    ));
    if thorough {
        // 4 threads: 2 producers, 2 consumers, one op each
        ps.extend(product(
            "c01-4thr",
            &[
                seqs(&[Op::Send, Op::TrySend], 1),
                seqs(&[Op::Send, Op::SendT(1)], 1),
                seqs(&[Op::Recv, Op::TryRecv], 1),
                seqs(&[Op::Recv, Op::RecvT(1), Op::Close(Side::R)], 1),
            ],
            &CAPS3,
            &[Class::DL],
            &sync_only(4),
            &[(S, Conv::Clone)],
            &[env(2, 1, None, Some(2))],
            true,
        ));
    }
    Suite {
        cfg: cfg(&[Oracle::ExactlyOnce], &[], false, false),
        rule: "all closed, colliding programs: 2 threads x (1,1) ops over the full send/receive alphabet x every sync/async assignment (every schedule); 2 threads x <=(2,2) ops over the core alphabet (preemption-bounded: 3 quick, 5 thorough; thorough also every schedule for the untimed alphabet); 3 threads (2 producers+1 consumer, 1 producer+2 consumers; bound 2 quick / 3 thorough), thorough: 4 threads; capacities {0,1,unbounded} (thorough also 2); distinct tags".into(),
        programs: ps,
    }
}

fn c02(thorough: bool) -> Suite {
    let mut ps = Vec::new();
    // one producer sending 2 values through every mix of send kinds, one
    // consumer
    ps.extend(product(
        "c02-1p1c",
        &[
            seqs(&[Op::Send, Op::TrySend, Op::SendT(2)], 2),
            seqs_upto(&[Op::Recv, Op::TryRecv, Op::RecvT(2), Op::Drain(VecState::Empty)], 2),
        ],
        &CAPS4,
        &[Class::P],
        &all_flavours(2),
        &[(S, Conv::Clone)],
        &[env(2, 1, None, pb2(thorough))],
        true,
    ));
    if thorough {
        ps.extend(product(
            "c02-1p1c-3",
            &[
                seqs(&[Op::Send, Op::TrySend], 3),
                seqs(&[Op::Recv, Op::TryRecv, Op::Drain(VecState::Empty)], 3),
            ],
            &CAPS4,
            &[Class::P],
            &sync_only(2),
            &[(S, Conv::Clone)],
            &[env(2, 1, None, Some(4))],
            true,
        ));
        ps.extend(product(
            "c02-1p1c-all",
            &[
                seqs(&[Op::Send, Op::TrySend], 2),
                seqs_upto(&[Op::Recv, Op::TryRecv, Op::Drain(VecState::Empty)], 2),
            ],
            &CAPS4,
            &[Class::P, Class::L],
            &all_flavours(2),
            &[(S, Conv::Clone)],
            &[env(2, 1, None, UNB)],
            true,
        ));
    }
    // two producers ordered through a flag; consumer receives twice
    ps.extend(product(
        "c02-2p-flag",
        &[
            vec![vec![Op::Send, Op::Set(0)], vec![Op::TrySend, Op::Set(0)], vec![Op::SendT(2), Op::Set(0)]],
            vec![vec![Op::Wait(0), Op::Send], vec![Op::Wait(0), Op::TrySend], vec![Op::Wait(0), Op::SendT(2)]],
            seqs(&[Op::Recv, Op::TryRecv, Op::Drain(VecState::Empty)], 2),
        ],
        &CAPS4,
        &[Class::P],
        &sync_only(3),
        &[(S, Conv::Clone)],
        &[env(2, 1, None, pb3(thorough))],
        true,
    ));
    // pending async senders queued in order, one cancelled (future dropped) or
    // a timed sender expired in between, before the consumer starts
    ps.extend(product(
        "c02-pending-cancel",
        &[
            vec![
                vec![Op::FSend(0), Op::Poll(0, 0), Op::FSend(1), Op::Poll(1, 0), Op::FSend(2), Op::Poll(2, 0), Op::FDrop(1), Op::Set(0), Op::Wait(1)],
                vec![Op::FSend(0), Op::Poll(0, 0), Op::FSend(1), Op::Poll(1, 0), Op::FSend(2), Op::Poll(2, 0), Op::FDrop(0), Op::Set(0), Op::Wait(1)],
                vec![Op::FSend(0), Op::Poll(0, 0), Op::SendT(1), Op::FSend(1), Op::Poll(1, 0), Op::Set(0), Op::Wait(1)],
            ],
            vec![
                vec![Op::Wait(0), Op::Recv, Op::Recv, Op::Set(1)],
                vec![Op::Wait(0), Op::Drain(VecState::Empty), Op::Set(1)],
                vec![Op::Wait(0), Op::TryRecv, Op::RecvT(2), Op::Set(1)],
            ],
        ],
        &[Cap::B(0), Cap::B(1)],
        &[Class::P, Class::L],
        &[vec![(A, A), (S, S)], vec![(A, A), (A, A)]],
        &[(S, Conv::Clone)],
        &[env(2, 1, None, UNB)],
        false,
    ));
    Suite {
        cfg: cfg(&[Oracle::Fifo], &[], false, false),
        rule: "ordered-producer programs: one producer x 2 (thorough 3) sends of every kind x one consumer (recv/try/timed/drain) x capacities {0,1,2,unbounded} x flavour assignments; two producers ordered by a flag; three pending async senders with one cancelled before the consumer starts; preemption-bounded except where noted".into(),
        programs: ps,
    }
}

fn c03(thorough: bool) -> Suite {
    let mut ps = Vec::new();
    let obs_s = [Op::Len(Side::S), Op::IsFull(Side::S), Op::RCount(Side::S), Op::IsClosed(Side::S)];
    let obs_r = [Op::Len(Side::R), Op::IsEmpty(Side::R), Op::SCount(Side::R), Op::IsTerm, Op::IsDisc(Side::R)];
    ps.extend(core2(
        "c03-full11",
        &with(&SEND_FULL, &[Op::Close(Side::S)]),
        &with(&RECV_FULL, &[Op::Close(Side::R)]),
        1,
        1,
        &CAPS4,
        &[Class::P],
        &all_flavours(2),
        &[env(2, 1, None, UNB)],
    ));
    ps.extend(core2(
        "c03-obs22",
        &with(&with(&[Op::Send, Op::TrySend, Op::SendT(1)], &[Op::Close(Side::S)]), &obs_s),
        &with(&with(&[Op::Recv, Op::TryRecv, Op::Drain(VecState::Empty)], &[Op::Close(Side::R)]), &obs_r),
        2,
        2,
        if thorough { &CAPS4 } else { &CAPS3 },
        &[Class::P],
        &sync_only(2),
        &[env(2, 1, None, pb2(thorough))],
    ));
    ps.extend(product(
        "c03-3thr",
        &[
            seqs(&[Op::Send, Op::TrySend], 1),
            seqs(&[Op::Send, Op::SendT(1), Op::Close(Side::S), Op::Len(Side::S)], 1),
            seqs(&[Op::Recv, Op::TryRecv, Op::Drain(VecState::Empty), Op::Len(Side::R)], 2),
        ],
        &CAPS3,
        &[Class::P],
        &sync_only(3),
        &[(S, Conv::Clone)],
        &[env(2, 1, None, pb3(thorough))],
        true,
    ));
    Suite {
        cfg: cfg(&[Oracle::Outcome], &[], false, false),
        rule: "generated 2-thread programs over the whole send/receive alphabet plus observers and close, 3-thread programs; the outcome vector of every implementation execution must be in the outcome set of the reference model under all operation-level interleavings".into(),
        programs: ps,
    }
}

fn c05(thorough: bool) -> Suite {
    let mut ps = Vec::new();
    let classes: &[Class] = if thorough {
        &[Class::D4, Class::DP, Class::DL, Class::DZ]
    } else {
        &[Class::DP, Class::DL]
    };
    ps.extend(core2(
        "c05-full11",
        &with(&SEND_FULL, &[Op::Close(Side::S)]),
        &with(&RECV_FULL, &[Op::Close(Side::R)]),
        1,
        1,
        &CAPS3,
        classes,
        &sync_only(2),
        &[env(2, 1, None, UNB)],
    ));
    if thorough {
        ps.extend(core2(
            "c05-full22",
            &with(&SEND_FULL, &[Op::Close(Side::S)]),
            &with(&RECV_FULL, &[Op::Close(Side::R)]),
            2,
            2,
            &CAPS3,
            &[Class::DL],
            &sync_only(2),
            &[env(2, 1, None, Some(3))],
        ));
    }
    // async sends with drops at every point
    ps.extend(product(
        "c05-fut",
        &[
            vec![
                vec![Op::FSend(0), Op::FDrop(0)],
                vec![Op::FSend(0), Op::Poll(0, 0), Op::FDrop(0)],
                vec![Op::FSend(0), Op::Poll(0, 0), Op::Poll(0, 1), Op::FDrop(0)],
                vec![Op::FSend(0), Op::Poll(0, 0), Op::Poll(0, 0)],
            ],
            seqs_upto(&[Op::Recv, Op::TryRecv, Op::RecvT(1), Op::Close(Side::R), Op::Drain(VecState::Spare)], 1),
        ],
        &[Cap::B(0), Cap::B(1)],
        classes,
        &[vec![(A, A), (S, S)], vec![(A, A), (A, A)]],
        &[(S, Conv::Clone)],
        &[env(2, 1, None, UNB)],
        false,
    ));
    Suite {
        cfg: cfg(&[Oracle::DropOnce], &[], false, false),
        rule: "every send variant x every way it can end (buffered, handed off before/after blocking, closed, receive-closed, timeout with won/lost cancel race, refused, future dropped at each point) x receiver variants x droppable payloads; ledger = exactly one destructor run per value at the end of every execution; Option argument Some <=> failure".into(),
        programs: ps,
    }
}
