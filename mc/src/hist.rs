//! Results, call records and the per-execution history (incl. drop ledger).

use crate::prog::{Op, Tag};
use serde::{Deserialize, Serialize};
use std::cell::RefCell;

#[derive(Clone, Copy, Debug, PartialEq, Eq, Hash, PartialOrd, Ord, Serialize, Deserialize)]
pub enum E {
    Closed,
    SendClosed,
    ReceiveClosed,
    Timeout,
    /// `close()` on an already closed channel
    AlreadyClosed,
}

#[derive(Clone, Debug, PartialEq, Eq, Hash, PartialOrd, Ord, Serialize, Deserialize)]
pub enum Res {
    /// send-like success / close success / handle ops
    Ok,
    /// receive-like success
    Val(Tag),
    /// `try_*` "not done" (`Ok(false)` / `Ok(None)`), `Iterator::next` → None
    NotDone,
    Err(E),
    /// `drain_into`: returned count, values appended (in order)
    Drained(u32, Vec<Tag>),
    Bool(bool),
    Num(u64),
    Pending,
    /// stream ended (`Ready(None)`)
    End,
    /// the call panicked (documented: polling a finished future)
    Panicked,
    /// future created / dropped
    Unit,
    /// all observers at once
    ObsVec(Vec<u64>),
}

impl Res {
    pub fn is_ok_send(&self) -> bool {
        matches!(self, Res::Ok)
    }
}

#[derive(Clone, Debug, Serialize, Deserialize)]
pub struct Call {
    pub thread: usize,
    pub idx: usize,
    pub op: Op,
    /// tag carried by a send-like op
    pub tag: Option<Tag>,
    pub inv: u64,
    pub ret: u64,
    pub res: Res,
    /// for the Option-taking sends: does the caller still hold the value?
    pub opt_some: Option<bool>,
    /// virtual clock at invocation / return (ticks)
    pub clk_inv: u64,
    pub clk_ret: u64,
    /// stamp at which this call's waiter entered the wait list (if it did)
    pub registered: Option<u64>,
    /// payload of every received value was intact
    pub intact: bool,
    /// vector handed to drain kept its previous contents
    pub prefix_ok: bool,
}

#[derive(Clone, Debug, Serialize, Deserialize)]
pub struct DropEv {
    pub tag: Tag,
    pub stamp: u64,
    pub thread: usize,
    /// dropped by the harness itself (a value it had received or got back)
    pub by_harness: bool,
}

#[derive(Clone, Debug, Default, Serialize, Deserialize)]
pub struct History {
    pub calls: Vec<Call>,
    pub drops: Vec<DropEv>,
    /// counting wakers: wake-ups received
    pub wakes: [u32; 2],
    /// stamps at which waiters were published, with the publishing thread
    pub publishes: Vec<(usize, u64)>,
    pub end_stamp: u64,
    /// every handle drop (explicit or at the end of its thread): thread, side,
    /// stamp before, stamp after
    pub hdrops: Vec<(usize, crate::prog::Side, u64, u64)>,
    /// per thread: stamp at which its end-of-thread drops began / were done
    pub thread_end: Vec<(usize, u64, u64)>,
}

thread_local! {
    pub static HIST: RefCell<History> = RefCell::new(History::default());
    static HARNESS_DROP: std::cell::Cell<bool> = const { std::cell::Cell::new(false) };
}

pub fn reset() {
    HIST.with(|h| *h.borrow_mut() = History::default());
    HARNESS_DROP.with(|c| c.set(false));
}

pub fn stamp() -> u64 {
    kanal_verif_rt::ctl::stamp()
}

pub fn record_drop(tag: Tag) {
    let by_harness = HARNESS_DROP.with(|c| c.get());
    let thread = kanal_verif_rt::ctl::thread_name();
    let s = stamp();
    HIST.with(|h| {
        h.borrow_mut().drops.push(DropEv {
            tag,
            stamp: s,
            thread,
            by_harness,
        })
    });
}

/// Drop `v` as the harness (so the ledger can tell it from a drop by kanal).
pub fn harness_drop<V>(v: V) {
    let old = HARNESS_DROP.with(|c| c.replace(true));
    drop(v);
    HARNESS_DROP.with(|c| c.set(old));
}

pub fn push_call(c: Call) {
    HIST.with(|h| h.borrow_mut().calls.push(c));
}

pub fn push_hdrop(t: usize, side: crate::prog::Side, inv: u64, ret: u64) {
    HIST.with(|h| h.borrow_mut().hdrops.push((t, side, inv, ret)));
}

pub fn push_thread_end(t: usize, begin: u64, end: u64) {
    HIST.with(|h| h.borrow_mut().thread_end.push((t, begin, end)));
}

pub fn take() -> History {
    HIST.with(|h| std::mem::take(&mut *h.borrow_mut()))
}

/// Outcome vector: every call's result in (thread, idx) order — what the
/// reference model's outcome set is compared with.
pub fn outcome_of(h: &History) -> Vec<(usize, usize, Res, Option<bool>)> {
    let mut v: Vec<_> = h
        .calls
        .iter()
        .map(|c| (c.thread, c.idx, c.res.clone(), c.opt_some))
        .collect();
    v.sort();
    v
}

/// For single-thread programs the wake counters of the two counting wakers are
/// part of the outcome (the model predicts them exactly).
pub fn outcome_with_wakes(h: &History, single: bool) -> Vec<(usize, usize, Res, Option<bool>)> {
    let mut v = outcome_of(h);
    if single {
        v.push((999, 0, Res::Num(h.wakes[0] as u64), None));
        v.push((999, 1, Res::Num(h.wakes[1] as u64), None));
    }
    v
}
