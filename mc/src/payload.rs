//! Payload classes: zero-sized (plain and over-aligned), smaller than / equal
//! to / larger than a pointer, padded, and droppable twins whose `Drop` bumps
//! the ledger.  Values are byte patterns derived from the tag with all bytes
//! distinct, so a truncated, misplaced, stale or torn copy is visible.

use crate::hist::record_drop;
use crate::prog::Tag;

pub trait Payload: Send + Sized + 'static {
    fn make(tag: Tag) -> Self;
    /// tag decoded from the value (0 for zero-sized classes)
    fn tag(&self) -> Tag;
    /// every byte of the value still follows the pattern of its tag (and, for
    /// over-aligned types, the reference is properly aligned)
    fn intact(&self) -> bool;
    /// what `make(t).tag()` is, without making a value
    fn tag_of(t: Tag) -> Tag {
        if std::mem::size_of::<Self>() == 0 {
            0
        } else {
            t & 0xff
        }
    }
}

#[inline]
fn byte(tag: Tag, i: usize) -> u8 {
    // distinct for distinct i (< 32) at a fixed tag; byte 0 identifies the tag
    if i == 0 {
        tag as u8
    } else {
        (tag as u8).wrapping_mul(7).wrapping_add(0x11u8.wrapping_mul(i as u8)) | 0x80
    }
}

fn usize_pat(tag: Tag, k: usize) -> usize {
    let mut b = [0u8; 8];
    for (i, x) in b.iter_mut().enumerate() {
        *x = byte(tag, k * 8 + i);
    }
    usize::from_le_bytes(b)
}

// ---- zero-sized
pub struct Z;
impl Payload for Z {
    fn make(_: Tag) -> Self {
        Z
    }
    fn tag(&self) -> Tag {
        0
    }
    fn intact(&self) -> bool {
        true
    }
}

#[repr(align(64))]
pub struct ZA;
impl Payload for ZA {
    fn make(_: Tag) -> Self {
        ZA
    }
    fn tag(&self) -> Tag {
        0
    }
    fn intact(&self) -> bool {
        (self as *const ZA as usize) % 64 == 0
    }
}

// ---- smaller than a pointer
pub struct B1(pub u8);
impl Payload for B1 {
    fn make(t: Tag) -> Self {
        B1(t as u8)
    }
    fn tag(&self) -> Tag {
        self.0 as Tag
    }
    fn intact(&self) -> bool {
        true
    }
}

/// 3 meaningful bytes + 1 padding byte
#[repr(C)]
pub struct B3(pub u8, pub u16);
impl Payload for B3 {
    fn make(t: Tag) -> Self {
        B3(byte(t, 0), u16::from_le_bytes([byte(t, 1), byte(t, 2)]))
    }
    fn tag(&self) -> Tag {
        self.0 as Tag
    }
    fn intact(&self) -> bool {
        let t = self.0 as Tag;
        self.1 == u16::from_le_bytes([byte(t, 1), byte(t, 2)])
    }
}

// ---- pointer sized
pub struct P(pub usize);
impl Payload for P {
    fn make(t: Tag) -> Self {
        P(usize_pat(t, 0))
    }
    fn tag(&self) -> Tag {
        (self.0 & 0xff) as Tag
    }
    fn intact(&self) -> bool {
        self.0 == usize_pat(self.tag(), 0)
    }
}

// ---- larger than a pointer
pub struct L(pub [usize; 3]);
impl Payload for L {
    fn make(t: Tag) -> Self {
        L([usize_pat(t, 0), usize_pat(t, 1), usize_pat(t, 2)])
    }
    fn tag(&self) -> Tag {
        (self.0[0] & 0xff) as Tag
    }
    fn intact(&self) -> bool {
        let t = self.tag();
        self.0 == [usize_pat(t, 0), usize_pat(t, 1), usize_pat(t, 2)]
    }
}

/// larger than a pointer, with interior and tail padding
#[repr(C)]
pub struct LP(pub u8, pub u64, pub u16);
impl Payload for LP {
    fn make(t: Tag) -> Self {
        LP(
            byte(t, 0),
            usize_pat(t, 1) as u64,
            u16::from_le_bytes([byte(t, 20), byte(t, 21)]),
        )
    }
    fn tag(&self) -> Tag {
        self.0 as Tag
    }
    fn intact(&self) -> bool {
        let t = self.tag();
        self.1 == usize_pat(t, 1) as u64 && self.2 == u16::from_le_bytes([byte(t, 20), byte(t, 21)])
    }
}

// ---- droppable twins: no real resource, so a double drop is recorded, not a
// crash
pub struct D4(pub u32);
impl Payload for D4 {
    fn make(t: Tag) -> Self {
        D4(u32::from_le_bytes([byte(t, 0), byte(t, 1), byte(t, 2), byte(t, 3)]))
    }
    fn tag(&self) -> Tag {
        self.0 & 0xff
    }
    fn intact(&self) -> bool {
        let t = self.tag();
        self.0 == u32::from_le_bytes([byte(t, 0), byte(t, 1), byte(t, 2), byte(t, 3)])
    }
}
impl Drop for D4 {
    fn drop(&mut self) {
        record_drop(self.tag())
    }
}

pub struct DP(pub usize);
impl Payload for DP {
    fn make(t: Tag) -> Self {
        DP(usize_pat(t, 0))
    }
    fn tag(&self) -> Tag {
        (self.0 & 0xff) as Tag
    }
    fn intact(&self) -> bool {
        self.0 == usize_pat(self.tag(), 0)
    }
}
impl Drop for DP {
    fn drop(&mut self) {
        record_drop(self.tag())
    }
}

pub struct DL(pub [usize; 3]);
impl Payload for DL {
    fn make(t: Tag) -> Self {
        DL([usize_pat(t, 0), usize_pat(t, 1), usize_pat(t, 2)])
    }
    fn tag(&self) -> Tag {
        (self.0[0] & 0xff) as Tag
    }
    fn intact(&self) -> bool {
        let t = self.tag();
        self.0 == [usize_pat(t, 0), usize_pat(t, 1), usize_pat(t, 2)]
    }
}
impl Drop for DL {
    fn drop(&mut self) {
        record_drop(self.tag())
    }
}

/// zero-sized with drop glue: no tag, the ledger counts
pub struct DZ;
impl Payload for DZ {
    fn make(_: Tag) -> Self {
        DZ
    }
    fn tag(&self) -> Tag {
        0
    }
    fn intact(&self) -> bool {
        true
    }
}
impl Drop for DZ {
    fn drop(&mut self) {
        record_drop(0)
    }
}
