//! E2, sequential conformance: every call sequence of one thread up to a
//! depth over an alphabet is executed on the real code (one 1-thread loom
//! execution each, needed for the virtual clock and the shim) and every
//! return value, the observers after every step and the wake counters are
//! compared with the reference model (exact in single-thread mode).

use crate::oracle::Oracle;
use crate::prog::*;
use crate::runner::{self, Kind, ProgRecord, RunCfg};
use std::collections::HashSet;
use Flavour::{Async as A, Sync as S};

#[derive(Clone)]
pub struct SeqSuite {
    /// breadth-first over the reference model's abstract states instead of all
    /// sequences: every (state, action) edge up to the depth is replayed once
    /// on the real code along the shortest call sequence that reaches it
    pub graph: bool,
    pub name: &'static str,
    pub alphabet: Vec<Op>,
    pub depth: usize,
    pub caps: Vec<Cap>,
    /// flavour of the thread's sender / receiver handle
    pub flavours: Vec<(Flavour, Flavour)>,
    pub class: Class,
    pub ctor: Flavour,
    /// ObsAll after every step
    pub observe: bool,
}

fn full_alphabet() -> Vec<Op> {
    let mut a = vec![
        Op::Send,
        Op::SendT(0),
        Op::SendT(1),
        Op::SendOT(0),
        Op::TrySend,
        Op::TrySendO,
        Op::TrySendRt,
        Op::TrySendORt,
        Op::Recv,
        Op::RecvT(0),
        Op::RecvT(1),
        Op::TryRecv,
        Op::TryRecvRt,
        Op::Drain(VecState::Empty),
        Op::Drain(VecState::Spare),
        Op::Drain(VecState::Prefilled),
        Op::Drain(VecState::Tight),
        Op::Next,
        Op::Close(Side::S),
        Op::Close(Side::R),
    ];
    for s in 0..2u8 {
        a.push(Op::FSend(s));
        a.push(Op::FRecv(s));
        a.push(Op::FDrop(s));
        a.push(Op::Poll(s, 0));
        a.push(Op::Poll(s, 1));
    }
    a.push(Op::FStream(0));
    a.push(Op::StreamIsTerm(0));
    for side in [Side::S, Side::R] {
        for c in [Conv::Clone, Conv::CloneOther, Conv::ToOther] {
            a.push(Op::NewHandle(side, c));
        }
        a.push(Op::DropHandle(side));
    }
    a
}

/// The graph suites visit every transition of the model's abstract state graph
/// once, so their cost is linear in the alphabet: they also carry the rarely
/// used calls.
fn graph_alphabet() -> Vec<Op> {
    let mut a = full_alphabet();
    a.extend([
        Op::SendNone(0),
        Op::SendNone(1),
        Op::SendNone(2),
        Op::CloneFrom(Side::S),
        Op::CloneFrom(Side::R),
        Op::DropHandleUnwinding(Side::S),
        Op::DropHandleUnwinding(Side::R),
        Op::MoveStream(0),
        Op::SendOT(1),
        Op::RecvT(2),
    ]);
    a
}

pub fn suites(check: &str, thorough: bool) -> (Vec<SeqSuite>, String) {
    let (mut v, rule) = suites_inner(check, thorough);
    if check == "C16" {
        // the poll scripts once more with a payload without drop glue (the
        // futures branch on needs_drop)
        let extra: Vec<SeqSuite> = v
            .iter()
            .filter(|x| x.name == "c16-graph" || x.name == "c16-polls")
            .map(|x| {
                let mut y = x.clone();
                y.class = Class::P;
                y.name = if x.graph { "c16-graph-plain" } else { "c16-polls-plain" };
                if !x.graph {
                    y.depth -= 1;
                }
                y
            })
            .collect();
        v.extend(extra);
    }
    (v, rule)
}

fn suites_inner(check: &str, thorough: bool) -> (Vec<SeqSuite>, String) {
    let caps4 = vec![Cap::B(0), Cap::B(1), Cap::B(2), Cap::Unbounded];
        match check {
        "C18" => {
            let mut v = vec![SeqSuite {
                graph: false,
                    name: "c18-full",
                alphabet: full_alphabet(),
                depth: if thorough { 4 } else { 3 },
                caps: caps4.clone(),
                flavours: if thorough { vec![(S, S), (A, A), (S, A)] } else { vec![(S, S), (A, A), (S, A), (A, S)] },
                class: Class::DL,
                ctor: S,
                observe: true,
            }];
            // deeper over the value-moving core
            v.push(SeqSuite {
                graph: false,
                    name: "c18-core",
                alphabet: vec![
                    Op::TrySend,
                    Op::SendT(1),
                    Op::TryRecv,
                    Op::RecvT(1),
                    Op::Drain(VecState::Empty),
                    Op::FSend(0),
                    Op::FRecv(1),
                    Op::Poll(0, 0),
                    Op::Poll(1, 1),
                    Op::FDrop(0),
                    Op::Close(Side::R),
                    Op::DropHandle(Side::S),
                ],
                depth: if thorough { 6 } else { 5 },
                caps: caps4.clone(),
                flavours: vec![(A, A)],
                class: Class::DP,
                ctor: A,
                observe: true,
            });
            // transition coverage of the model's state graph, much deeper
            v.push(SeqSuite {
                graph: true,
                name: "c18-graph",
                alphabet: graph_alphabet(),
                depth: if thorough { 6 } else { 4 },
                caps: caps4.clone(),
                flavours: vec![(A, A), (S, S)],
                class: Class::DP,
                ctor: A,
                observe: true,
            });
            // ... and with payloads that have no drop glue (plain data takes
            // different branches in the futures and the timed calls)
            v.push(SeqSuite {
                graph: true,
                name: "c18-graph-plain",
                alphabet: graph_alphabet(),
                depth: if thorough { 5 } else { 4 },
                caps: vec![Cap::B(0), Cap::B(1), Cap::Unbounded],
                flavours: vec![(A, A)],
                class: Class::L,
                ctor: A,
                observe: true,
            });
            v.push(SeqSuite {
                graph: true,
                name: "c18-graph-plain",
                alphabet: graph_alphabet(),
                depth: if thorough { 5 } else { 4 },
                caps: vec![Cap::B(1), Cap::B(2)],
                flavours: vec![(A, A), (S, S)],
                class: Class::P,
                ctor: S,
                observe: true,
            });
            // cancellation of either kind of future after the peer's side of the
            // wait list changed (six calls)
            v.push(SeqSuite {
                graph: false,
                name: "c18-cancel",
                alphabet: vec![
                    Op::FRecv(0),
                    Op::Poll(0, 0),
                    Op::FDrop(0),
                    Op::FSend(1),
                    Op::Poll(1, 0),
                    Op::FDrop(1),
                    Op::TrySend,
                    Op::TryRecv,
                ],
                depth: if thorough { 7 } else { 6 },
                caps: vec![Cap::B(0), Cap::B(1)],
                flavours: vec![(A, A)],
                class: Class::DP,
                ctor: A,
                observe: false,
            });
            // the refill of the buffer from a pending sender by an async receive
            // needs seven calls
            v.push(SeqSuite {
                graph: false,
                    name: "c18-refill",
                alphabet: vec![
                    Op::TrySend,
                    Op::FSend(0),
                    Op::Poll(0, 0),
                    Op::FRecv(1),
                    Op::Poll(1, 0),
                    Op::FDrop(1),
                    Op::TryRecv,
                ],
                depth: if thorough { 8 } else { 7 },
                caps: vec![Cap::B(2)],
                flavours: vec![(A, A)],
                class: Class::DP,
                ctor: A,
                observe: false,
            });
            // the sync side with timed calls and the iterator, deeper
            v.push(SeqSuite {
                graph: false,
                    name: "c18-sync",
                alphabet: vec![
                    Op::TrySend,
                    Op::TrySendO,
                    Op::SendT(1),
                    Op::SendOT(0),
                    Op::TryRecv,
                    Op::RecvT(1),
                    Op::Next,
                    Op::Drain(VecState::Prefilled),
                    Op::NewHandle(Side::S, Conv::Clone),
                    Op::DropHandle(Side::S),
                    Op::DropHandle(Side::R),
                    Op::Close(Side::S),
                ],
                depth: if thorough { 6 } else { 5 },
                caps: caps4.clone(),
                flavours: vec![(S, S)],
                class: Class::DL,
                ctor: S,
                observe: true,
            });
            (v, "every sequence of public API calls of one thread up to length 3 (thorough 4) over the full alphabet (all send / receive / try / realtime / zero- and one-tick timed calls, drain into three vector states, iterator, single polls of two send/receive future slots and a stream with two wakers, future drops, clone / clone_other / convert / drop of handles, close) with every observer (len, is_empty, is_full, capacity, is_bounded, counts, is_closed, is_disconnected, is_terminated) read after every step, capacities {0,1,2,unbounded}, all four flavour assignments; plus length 5 (thorough 6) over the value-moving core; each sequence executed on the real code and compared step by step with the reference model".into())
        }
        "C12" => (
            vec![SeqSuite {
                graph: true,
                name: "c12-graph",
                alphabet: {
                    let mut a = Vec::new();
                    for side in [Side::S, Side::R] {
                        for c in [Conv::Clone, Conv::CloneOther, Conv::ToOther] {
                            a.push(Op::NewHandle(side, c));
                        }
                        a.push(Op::DropHandle(side));
                        a.push(Op::DropHandleUnwinding(side));
                        a.push(Op::CloneFrom(side));
                        a.push(Op::Close(side));
                    }
                    a.push(Op::TrySend);
                    a.push(Op::TryRecv);
                    a.push(Op::Next);
                    a.push(Op::Drain(VecState::Empty));
                    a
                },
                depth: if thorough { 9 } else { 7 },
                caps: vec![Cap::B(1)],
                flavours: vec![(S, S), (A, A)],
                class: Class::P,
                ctor: S,
                observe: true,
            }, SeqSuite {
                graph: false,
                    name: "c12-handles",
                alphabet: {
                    let mut a = Vec::new();
                    for side in [Side::S, Side::R] {
                        for c in [Conv::Clone, Conv::CloneOther, Conv::ToOther] {
                            a.push(Op::NewHandle(side, c));
                        }
                        a.push(Op::DropHandle(side));
                        a.push(Op::DropHandleUnwinding(side));
                        a.push(Op::CloneFrom(side));
                        a.push(Op::Close(side));
                    }
                    a
                },
                depth: if thorough { 6 } else { 5 },
                caps: vec![Cap::B(1)],
                flavours: vec![(S, S), (A, A), (S, A), (A, S)],
                class: Class::P,
                ctor: S,
                observe: true,
            }, SeqSuite {
                // the counts while futures and a stream of the channel exist
                graph: false,
                name: "c12-futures",
                alphabet: vec![
                    Op::FStream(0),
                    Op::FRecv(1),
                    Op::FSend(2),
                    Op::Poll(0, 0),
                    Op::Poll(1, 0),
                    Op::Poll(2, 0),
                    Op::FDrop(0),
                    Op::FDrop(1),
                    Op::FDrop(2),
                    Op::MoveStream(0),
                    Op::NewHandle(Side::R, Conv::Clone),
                    Op::NewHandle(Side::S, Conv::Clone),
                    Op::DropHandle(Side::S),
                    Op::DropHandle(Side::R),
                    Op::TryRecv,
                ],
                depth: if thorough { 6 } else { 5 },
                caps: vec![Cap::B(1)],
                flavours: vec![(A, A)],
                class: Class::P,
                ctor: A,
                observe: true,
            }],
            "every sequence up to length 5 (thorough 6) of clone / clone_sync|clone_async / to_sync|to_async / drop / close over both sides and both flavours, sender_count and receiver_count (and all other observers) read after every step; clone_from over a handle of a second channel (whose counts must return to zero); the counts while send / receive futures and a stream of the channel exist, are polled, moved and dropped; ledger of live handles = the reference model".into(),
        ),
        "C16" => (
            vec![
                SeqSuite {
                    graph: true,
                    name: "c16-graph",
                    alphabet: {
                        let mut a = vec![Op::FSend(0), Op::FSend(1), Op::FRecv(2), Op::FStream(3)];
                        for slot in 0..4u8 {
                            a.push(Op::Poll(slot, 0));
                            a.push(Op::Poll(slot, 1));
                            a.push(Op::FDrop(slot));
                        }
                        a.extend([
                            Op::StreamIsTerm(3),
                            Op::MoveStream(3),
                            Op::TrySend,
                            Op::TryRecv,
                            Op::Close(Side::S),
                            Op::DropHandle(Side::S),
                        ]);
                        a
                    },
                    depth: if thorough { 9 } else { 7 },
                    caps: vec![Cap::B(0), Cap::B(1)],
                    flavours: vec![(A, A)],
                    class: Class::DP,
                    ctor: A,
                    observe: false,
                },
                SeqSuite {
                    graph: false,
                    name: "c16-polls",
                    alphabet: vec![
                        Op::FSend(0),
                        Op::FRecv(1),
                        Op::Poll(0, 0),
                        Op::Poll(0, 1),
                        Op::Poll(1, 0),
                        Op::Poll(1, 1),
                        Op::FDrop(0),
                        Op::FDrop(1),
                        Op::TrySend,
                        Op::TryRecv,
                        Op::Close(Side::S),
                        Op::DropHandle(Side::R),
                    ],
                    depth: if thorough { 6 } else { 5 },
                    caps: vec![Cap::B(0), Cap::B(1)],
                    flavours: vec![(A, A)],
                    class: Class::DL,
                    ctor: A,
                    observe: false,
                },
                SeqSuite {
                    graph: false,
                    name: "c16-two-sends",
                    alphabet: vec![
                        Op::FSend(0),
                        Op::FSend(1),
                        Op::Poll(0, 0),
                        Op::Poll(0, 1),
                        Op::Poll(1, 0),
                        Op::Poll(1, 1),
                        Op::FDrop(0),
                        Op::FDrop(1),
                        Op::TryRecv,
                        Op::Close(Side::S),
                    ],
                    depth: if thorough { 7 } else { 6 },
                    caps: vec![Cap::B(0), Cap::B(1)],
                    flavours: vec![(A, A)],
                    class: Class::DL,
                    ctor: A,
                    observe: false,
                },
                SeqSuite {
                    graph: false,
                    name: "c16-two-recvs",
                    alphabet: vec![
                        Op::FRecv(0),
                        Op::FRecv(1),
                        Op::Poll(0, 0),
                        Op::Poll(0, 1),
                        Op::Poll(1, 0),
                        Op::Poll(1, 1),
                        Op::FDrop(0),
                        Op::FDrop(1),
                        Op::TrySend,
                        Op::Close(Side::R),
                    ],
                    depth: if thorough { 7 } else { 6 },
                    caps: vec![Cap::B(0), Cap::B(1)],
                    flavours: vec![(A, A)],
                    class: Class::DP,
                    ctor: A,
                    observe: false,
                },
                SeqSuite {
                    graph: false,
                    name: "c16-stream",
                    alphabet: vec![
                        Op::FStream(0),
                        Op::Poll(0, 0),
                        Op::Poll(0, 1),
                        Op::StreamIsTerm(0),
                        Op::MoveStream(0),
                        Op::FDrop(0),
                        Op::TrySend,
                        Op::FSend(1),
                        Op::Poll(1, 0),
                        Op::Close(Side::S),
                        Op::DropHandle(Side::S),
                    ],
                    depth: if thorough { 7 } else { 6 },
                    caps: vec![Cap::B(0), Cap::B(1)],
                    flavours: vec![(A, A)],
                    class: Class::DP,
                    ctor: A,
                    observe: false,
                },
            ],
            "every poll script of one thread up to length 5/6 (thorough 6/7): send and receive futures and the stream polled with either of two counting wakers at any time (spurious polls, waker changes, polls after completion), dropped at any time, interleaved with try_send / try_recv / close / handle drops; oracle: every Poll value, panic exactly when a completed future is polled again, the wake counters of both wakers (the most recently supplied waker is the one woken), stream items once and in order then None forever".into(),
        ),
        _ => (vec![], String::new()),
    }
}

pub fn cfg() -> RunCfg {
    RunCfg {
        oracles: vec![Oracle::Outcome, Oracle::DropOnce, Oracle::ExactlyOnce],
        kinds: vec![
            Kind::Oracle(Oracle::Outcome),
            Kind::Oracle(Oracle::DropOnce),
            Kind::Oracle(Oracle::ExactlyOnce),
            Kind::Panic,
            Kind::Deadlock,
            Kind::Livelock,
            Kind::DataRace,
            Kind::UseAfterReturn,
        ],
        track: true,
        nowait: false,
        max_branches: 3000,
        wall_cap_ms: 60_000,
        model_cap: 100_000,
    }
}

/// validity of a sequence: handle depths, slot liveness
struct Shape {
    hs: i32,
    hr: i32,
    live: [u8; 4],
}

impl Shape {
    fn step(&mut self, o: Op) -> bool {
        // ops need a handle of their side
        match o.side() {
            Some(Side::S) if self.hs <= 0 => return false,
            Some(Side::R) if self.hr <= 0 => return false,
            _ => {}
        }
        // a handle that a live future of its own side borrows stays
        let live_s = self.live.iter().any(|x| *x == 1);
        let live_r = self.live.iter().any(|x| *x == 2 || *x == 3);
        match o {
            Op::CloneFrom(Side::S) => self.hs += 1,
            Op::CloneFrom(Side::R) => self.hr += 1,
            Op::NewHandle(Side::S, c) => {
                if c == Conv::ToOther {
                    if live_s {
                        return false;
                    }
                } else {
                    self.hs += 1
                }
            }
            Op::NewHandle(Side::R, c) => {
                if c == Conv::ToOther {
                    if live_r {
                        return false;
                    }
                } else {
                    self.hr += 1
                }
            }
            Op::DropHandle(side) | Op::DropHandleUnwinding(side) => {
                if (side == Side::S && live_s) || (side == Side::R && live_r) {
                    return false;
                }
                match side {
                    Side::S => self.hs -= 1,
                    Side::R => self.hr -= 1,
                }
            }
            Op::FSend(s) => {
                if self.live[s as usize] != 0 {
                    return false;
                }
                self.live[s as usize] = 1
            }
            Op::FRecv(s) => {
                if self.live[s as usize] != 0 {
                    return false;
                }
                self.live[s as usize] = 2
            }
            Op::FStream(s) => {
                if self.live[s as usize] != 0 {
                    return false;
                }
                self.live[s as usize] = 3
            }
            Op::Poll(s, _) => {
                if self.live[s as usize] == 0 {
                    return false;
                }
            }
            Op::StreamIsTerm(s) | Op::MoveStream(s) => {
                if self.live[s as usize] != 3 {
                    return false;
                }
            }
            Op::FDrop(s) => {
                if self.live[s as usize] == 0 {
                    return false;
                }
                self.live[s as usize] = 0
            }
            _ => {}
        }
        true
    }
}

pub struct SeqStats {
    /// resume: do not execute anything up to and including the sequence with
    /// this name (it took the previous worker of this shard down)
    pub after: Option<String>,
    pub sequences: u64,
    pub skipped_blocking: u64,
    pub model_states: u64,
    pub model_transitions: u64,
    pub model_outcomes: u64,
    pub distinct: HashSet<u64>,
    pub violations: Vec<ProgRecord>,
    pub sample: Option<ProgRecord>,
    pub max_depth: usize,
    pub graph_states: u64,
    pub graph_edges: u64,
}

fn hash_of<T: std::hash::Hash>(t: &T) -> u64 {
    use std::hash::Hasher;
    let mut s = std::collections::hash_map::DefaultHasher::new();
    t.hash(&mut s);
    s.finish()
}

fn build(su: &SeqSuite, cap: Cap, fl: (Flavour, Flavour), ops: &[Op]) -> Program {
    let mut full = Vec::new();
    for o in ops.iter() {
        full.push(*o);
        if su.observe {
            full.push(Op::ObsAll);
        }
    }
    Program {
        name: format!(
            "{}/{:?}/{:?}{:?}/{}",
            su.name,
            cap,
            fl.0,
            fl.1,
            ops.iter().map(|o| format!("{:?}", o).replace(' ', "")).collect::<Vec<_>>().join(",")
        ),
        cap,
        class: su.class,
        ctor: su.ctor,
        via: Conv::Clone,
        threads: vec![ThreadSpec {
            s: Some(fl.0),
            r: Some(fl.1),
            ops: full,
        }],
        env: Env {
            par: 2,
            spin: 1,
            spurious_park: None,
            preempt: None,
            stall: 0,
            lock_spin: 0,
        },
        pre: 0,
    }
}

fn next_allowed(o: Op, fl: (Flavour, Flavour), ops: &[Op]) -> bool {
    if o == Op::Next && fl.1 == A {
        return false;
    }
    if o == Op::Next && ops.iter().any(|x| matches!(x, Op::NewHandle(Side::R, c) if *c != Conv::Clone)) {
        return false;
    }
    true
}

fn execute(p: &Program, depth: usize, full_depth: usize, st: &mut SeqStats, cfg: &RunCfg) {
    if let Some(a) = &st.after {
        if *a == p.name {
            st.after = None;
        }
        return;
    }
    let r = runner::run_program(st.sequences as usize, p, cfg, "default");
    st.sequences += 1;
    st.max_depth = st.max_depth.max(depth);
    st.model_states += r.model_states;
    st.model_transitions += r.model_transitions;
    st.model_outcomes += r.model_outcomes;
    if let Some(s) = &r.sample {
        use crate::hist::Res;
        let nontrivial = s.calls.iter().any(|c| {
            matches!(c.res, Res::Val(_) | Res::Err(_) | Res::Panicked | Res::End)
                || matches!(&c.res, Res::Drained(n, _) if *n > 0)
                || (c.tag.is_some() && c.res == Res::Ok)
                || matches!(c.op, Op::NewHandle(..) | Op::DropHandle(_) | Op::Close(_))
        });
        if nontrivial {
            st.distinct.insert(hash_of(&p.name));
        }
    }
    if r.violation.is_some() || r.foreign.is_some() || !r.completed {
        let mut r = r;
        r.program = Some(p.clone());
        if st.violations.len() < 50 {
            st.violations.push(r);
        }
    } else if st.sample.is_none() && depth == full_depth {
        let mut r = r;
        r.program = Some(p.clone());
        st.sample = Some(r);
    }
}

/// Breadth-first over the reference model's abstract states (transition
/// coverage): every call sequence popped from the frontier is the shortest one
/// found to its state; each of its outgoing (state, action) edges is replayed
/// on the real code once.
fn run_graph(su: &SeqSuite, cap: Cap, fl: (Flavour, Flavour), shard: (usize, usize), st: &mut SeqStats, cfg: &RunCfg) {
    const GRAPH_SHARDS: usize = 16;
    if shard.0 >= GRAPH_SHARDS.min(shard.1) {
        return;
    }
    let nsh = GRAPH_SHARDS.min(shard.1);
    let mut seen: HashSet<crate::model::World> = HashSet::new();
    let mut frontier: std::collections::VecDeque<(Vec<Op>, Shape)> = std::collections::VecDeque::new();
    frontier.push_back((
        Vec::new(),
        Shape {
            hs: 1,
            hr: 1,
            live: [0; 4],
        },
    ));
    for k in crate::model::abstract_states_after(&build(su, cap, fl, &[])) {
        seen.insert(k);
    }
    while let Some((path, shape)) = frontier.pop_front() {
        if path.len() >= su.depth {
            continue;
        }
        for o in &su.alphabet {
            let mut sh = Shape {
                hs: shape.hs,
                hr: shape.hr,
                live: shape.live,
            };
            if !sh.step(*o) || !next_allowed(*o, fl, &path) {
                continue;
            }
            let mut ops = path.clone();
            ops.push(*o);
            let p = build(su, cap, fl, &ops);
            let ex = crate::model::explore(&p, cfg.model_cap);
            if ex.can_deadlock || ex.outcomes.is_empty() || ex.capped {
                st.skipped_blocking += 1;
                continue;
            }
            st.graph_edges += 1;
            if (hash_of(&p.name) as usize) % nsh == shard.0 {
                execute(&p, ops.len(), su.depth, st, cfg);
            }
            let mut fresh = false;
            for k in crate::model::abstract_states_after(&p) {
                if seen.insert(k) {
                    fresh = true;
                }
            }
            if fresh {
                frontier.push_back((ops, sh));
            }
        }
    }
    st.graph_states += seen.len() as u64;
}

#[allow(clippy::too_many_arguments)]
fn rec(
    su: &SeqSuite,
    cap: Cap,
    fl: (Flavour, Flavour),
    ops: &mut Vec<Op>,
    shape: Shape,
    shard: (usize, usize),
    st: &mut SeqStats,
    cfg: &RunCfg,
) {
    if !ops.is_empty() {
        // partition by the first three operations
        const L: usize = 3;
        let key = hash_of(&(su.name, cap, fl, &ops[..ops.len().min(L)]));
        let mine = (key as usize) % shard.1 == shard.0;
        if ops.len() >= L && !mine {
            return;
        }
        if mine || ops.len() < L {
            let run_it = mine;
            let mut full = Vec::new();
            for o in ops.iter() {
                full.push(*o);
                if su.observe {
                    full.push(Op::ObsAll);
                }
            }
            let p = Program {
                name: format!(
                    "{}/{:?}/{:?}{:?}/{}",
                    su.name,
                    cap,
                    fl.0,
                    fl.1,
                    ops.iter().map(|o| format!("{:?}", o).replace(' ', "")).collect::<Vec<_>>().join(",")
                ),
                cap,
                class: su.class,
                ctor: su.ctor,
                via: Conv::Clone,
                threads: vec![ThreadSpec {
                    s: Some(fl.0),
                    r: Some(fl.1),
                    ops: full,
                }],
                env: Env {
                    par: 2,
                    spin: 1,
                    spurious_park: None,
                    preempt: None,
                    stall: 0,
            lock_spin: 0,
                },
                pre: 0,
            };
            // an operation the model says blocks forever is not enabled
            let ex = crate::model::explore(&p, cfg.model_cap);
            if ex.can_deadlock || ex.outcomes.is_empty() || ex.capped {
                st.skipped_blocking += 1;
                return;
            }
            let mut run_it = run_it;
            if run_it {
                if let Some(a) = &st.after {
                    if *a == p.name {
                        st.after = None;
                    }
                    run_it = false;
                }
            }
            if run_it {
                let r = runner::run_program(st.sequences as usize, &p, cfg, "default");
                st.sequences += 1;
                st.max_depth = st.max_depth.max(ops.len());
                st.model_states += r.model_states;
                st.model_transitions += r.model_transitions;
                st.model_outcomes += r.model_outcomes;
                if let Some(s) = &r.sample {
                    // every sequence is distinct by construction; it is
                    // non-trivial if some call moved or refused a value,
                    // failed, panicked or changed the handle counts
                    use crate::hist::Res;
                    let nontrivial = s.calls.iter().any(|c| {
                        matches!(c.res, Res::Val(_) | Res::Err(_) | Res::Panicked | Res::End)
                            || matches!(&c.res, Res::Drained(n, _) if *n > 0)
                            || (c.tag.is_some() && c.res == Res::Ok)
                            || matches!(c.op, Op::NewHandle(..) | Op::DropHandle(_) | Op::Close(_))
                    });
                    if nontrivial {
                        st.distinct.insert(hash_of(&p.name));
                    }
                }
                if r.violation.is_some() || r.foreign.is_some() || !r.completed {
                    let mut r = r;
                    r.program = Some(p.clone());
                    if st.violations.len() < 50 {
                        st.violations.push(r);
                    }
                } else if st.sample.is_none() && ops.len() == su.depth {
                    let mut r = r;
                    r.program = Some(p.clone());
                    st.sample = Some(r);
                }
            }
        }
    }
    if ops.len() == su.depth {
        return;
    }
    for o in &su.alphabet {
        let mut sh = Shape {
            hs: shape.hs,
            hr: shape.hr,
            live: shape.live,
        };
        if !sh.step(*o) {
            continue;
        }
        // flavour-specific ops
        if *o == Op::Next && fl.1 == A {
            // a converted handle may be sync; keep it simple: Next only with a
            // sync receiver flavour and no conversions of that side in the prefix
            continue;
        }
        if *o == Op::Next && ops.iter().any(|x| matches!(x, Op::NewHandle(Side::R, c) if *c != Conv::Clone)) {
            continue;
        }
        ops.push(*o);
        rec(su, cap, fl, ops, sh, shard, st, cfg);
        ops.pop();
    }
}

pub fn run(check: &str, thorough: bool, shard: (usize, usize), after: Option<String>) -> SeqStats {
    let (suites, _) = suites(check, thorough);
    let cfg = cfg();
    let mut st = SeqStats {
        after,
        sequences: 0,
        skipped_blocking: 0,
        model_states: 0,
        model_transitions: 0,
        model_outcomes: 0,
        distinct: HashSet::new(),
        violations: Vec::new(),
        sample: None,
        max_depth: 0,
        graph_states: 0,
        graph_edges: 0,
    };
    for su in &suites {
        for &cap in &su.caps {
            for &fl in &su.flavours {
                if su.graph {
                    run_graph(su, cap, fl, shard, &mut st, &cfg);
                    continue;
                }
                let mut ops = Vec::new();
                rec(
                    su,
                    cap,
                    fl,
                    &mut ops,
                    Shape {
                        hs: 1,
                        hr: 1,
                        live: [0; 4],
                    },
                    shard,
                    &mut st,
                    &cfg,
                );
            }
        }
    }
    st
}
